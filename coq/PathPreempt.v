(* C15, independent reading: "with preemption_bound = Some n every explored
   execution contains at most n switches away from a thread that could have
   continued".

   PathApi.v proves that loom's STORED count ([preemptions s]) never exceeds
   the bound.  This file defines the count independently of the stored fields
   ([switches]: look only at which thread is Active in consecutive Schedule
   entries and whether the thread that was running is still runnable), and
   proves that the stored count is an upper bound of it:

       switches (branches p) <= preemptions (last Schedule entry) <= bound.

   The link between the two is a well-formedness invariant of the stack
   ([pre_inv]) which is established by [path_new] and preserved by every API
   function and by [step].  [branch_thread] preserves it only for seeds that
   satisfy [seed_switch_ok]: if the seed does not keep the previously running
   thread Active, that thread is Disabled or Yield in the seed.  This is a
   property of the caller (Execution::schedule), not of path.rs; it is stated
   on the seed list and the previously active thread only. *)
Require Import LV.Base LV.Path LV.PathSpec LV.PathApi.
From Coq Require Import Lia.

(* ------------------------------------------------------------------ *)
(* 1. the independent count                                            *)
(* ------------------------------------------------------------------ *)

Fixpoint sched_entries (b : list entry) : list schedule :=
  match b with
  | [] => []
  | ESched s :: t => s :: sched_entries t
  | _ :: t => sched_entries t
  end.

Definition runnable_status (t : tstat) : bool :=
  match t with
  | Active | Skip | Pending | Visited => true
  | Disabled | TYield => false
  end.

(* status of thread [u] at a scheduling point (threads beyond the array do
   not exist: Disabled) *)
Definition thread_status (s : schedule) (u : nat) : tstat := nth u (s_threads s) Disabled.

(* a switch away from a thread that could have continued *)
Definition switch_at (prev : option nat) (s : schedule) : bool :=
  match active_thread_index s, prev with
  | Some t, Some u => negb (Nat.eqb t u) && runnable_status (thread_status s u)
  | _, _ => false
  end.

Fixpoint switches_from (prev : option nat) (l : list schedule) : nat :=
  match l with
  | [] => 0
  | s :: t => (if switch_at prev s then 1 else 0) + switches_from (active_thread_index s) t
  end.

(* the thread running before the first scheduling point is the main thread *)
Definition switches (b : list entry) : nat := switches_from (Some 0) (sched_entries b).

Fixpoint last_opt (l : list schedule) : option schedule :=
  match l with
  | [] => None
  | s :: t => match last_opt t with Some x => Some x | None => Some s end
  end.

Definition last_sched (b : list entry) : option schedule := last_opt (sched_entries b).

(* the thread that is running at the end of the stack *)
Definition prev_active (b : list entry) : option nat :=
  match last_sched b with
  | Some s => active_thread_index s
  | None => Some 0
  end.

(* ------------------------------------------------------------------ *)
(* 2. the invariant                                                    *)
(* ------------------------------------------------------------------ *)

(* what a new Schedule entry reads from the stack below it: index, current
   preemptions and current active thread of the last Schedule entry *)
Record st := mkSt { st_idx : option nat; st_pre : nat; st_act : option nat }.

Definition st0 : st := mkSt None 0 (Some 0).
Definition st_of (idx : nat) (s : schedule) : st :=
  mkSt (Some idx) (preemptions s) (active_thread_index s).

Fixpoint st_after (idx : nat) (a : st) (b : list entry) : st :=
  match b with
  | [] => a
  | ESched s :: t => st_after (S idx) (st_of idx s) t
  | _ :: t => st_after (S idx) a t
  end.

(* the k-th Schedule entry [s] against its predecessor (summarised by [a]):
     - s_prev points to the predecessor (None for the first entry);
     - s_pre is the predecessor's preemptions (0 for the first entry);
     - for k > 0, initial_active, when set, is the predecessor's active thread;
     - initial_active is the previously running thread, or else the
       previously running thread is not runnable at this point. *)
Definition link (a : st) (s : schedule) : Prop :=
  s_prev s = st_idx a /\
  s_pre s = st_pre a /\
  (st_idx a <> None -> forall i, s_ia s = Some i -> st_act a = Some i) /\
  (s_ia s = st_act a \/
   forall u, st_act a = Some u -> runnable_status (thread_status s u) = false).

Fixpoint pre_inv_from (idx : nat) (a : st) (b : list entry) : Prop :=
  match b with
  | [] => True
  | ESched s :: t => link a s /\ pre_inv_from (S idx) (st_of idx s) t
  | _ :: t => pre_inv_from (S idx) a t
  end.

Definition pre_inv (b : list entry) : Prop := pre_inv_from 0 st0 b.

(* ---- the hypothesis on seeds ---- *)
(* if the seed does not make the previously running thread [u] Active, then
   [u] is Disabled or Yield in the seed (threads beyond the seed: Disabled) *)
Definition seed_switch_ok (pa : option nat) (seed : list tstat) : Prop :=
  forall u, pa = Some u -> find_index is_active seed <> Some u ->
            nth u seed Disabled = Disabled \/ nth u seed Disabled = TYield.

Definition seed_ok (pa : option nat) (seed : list tstat) : Prop :=
  seed_switch_ok pa seed /\ Forall (fun t => t <> Pending /\ t <> Visited) seed.

(* three ways to establish it, matching Execution::schedule: the running
   thread stays Active / the running thread is blocked or yielded / there is
   no running thread *)
Lemma seed_switch_ok_keep pa seed :
  find_index is_active seed = pa -> seed_switch_ok pa seed.
Proof. intros Heq u Hu Hne. exfalso. apply Hne. congruence. Qed.

Lemma seed_switch_ok_blocked u seed :
  nth u seed Disabled = Disabled \/ nth u seed Disabled = TYield ->
  seed_switch_ok (Some u) seed.
Proof. intros H v Hv _. injection Hv as <-. exact H. Qed.

Lemma seed_switch_ok_none seed : seed_switch_ok None seed.
Proof. intros u Hu. discriminate. Qed.

(* ------------------------------------------------------------------ *)
(* 3. the theorem: stored count >= independent count                   *)
(* ------------------------------------------------------------------ *)

Lemma opt_nat_eqb_eq a b : opt_nat_eqb a b = true <-> a = b.
Proof.
  destruct a as [x|], b as [y|]; cbn; split; intros H; try discriminate; auto.
  - apply Nat.eqb_eq in H. congruence.
  - injection H as ->. apply Nat.eqb_refl.
Qed.

Lemma preemptions_ge s : s_pre s <= preemptions s.
Proof.
  unfold preemptions.
  destruct (is_some (s_ia s) && negb (opt_nat_eqb (s_ia s) (active_thread_index s))); lia.
Qed.

Lemma switch_at_counted a s :
  link a s -> switch_at (st_act a) s = true -> preemptions s = S (s_pre s).
Proof.
  intros (_ & _ & _ & H4) Hsw. unfold switch_at in Hsw.
  destruct (active_thread_index s) as [t|] eqn:Hact; [|discriminate].
  destruct (st_act a) as [u|] eqn:Hpa; [|discriminate].
  apply andb_true_iff in Hsw. destruct Hsw as [Hne Hrun].
  destruct H4 as [Hia|Hnr].
  - unfold preemptions. rewrite Hia, Hact. cbn [is_some opt_nat_eqb andb].
    rewrite Nat.eqb_sym. rewrite Hne. reflexivity.
  - rewrite (Hnr u eq_refl) in Hrun. discriminate.
Qed.

Lemma switches_from_le b : forall idx a,
  pre_inv_from idx a b ->
  switches_from (st_act a) (sched_entries b) + st_pre a <= st_pre (st_after idx a b).
Proof.
  induction b as [|e b IH]; intros idx a H; cbn [sched_entries st_after switches_from].
  - lia.
  - destruct e as [s|l|sp]; cbn [pre_inv_from] in H; [|apply IH; exact H..].
    destruct H as [Hl Hr]. cbn [switches_from].
    specialize (IH _ _ Hr). cbn [st_of st_act st_pre] in IH.
    assert (Hs : (if switch_at (st_act a) s then 1 else 0) + st_pre a <= preemptions s).
    { destruct (switch_at (st_act a) s) eqn:Hsw.
      - rewrite (switch_at_counted _ _ Hl Hsw).
        destruct Hl as (_ & -> & _). lia.
      - pose proof (preemptions_ge s) as Hge.
        destruct Hl as (_ & Hpre & _). lia. }
    lia.
Qed.

Lemma st_after_last b : forall idx a,
  match last_sched b with
  | Some s => exists i, st_after idx a b = st_of i s
  | None => st_after idx a b = a
  end.
Proof.
  unfold last_sched.
  induction b as [|e b IH]; intros idx a; cbn [sched_entries last_opt st_after].
  - reflexivity.
  - destruct e as [s|l|sp]; [|apply IH..].
    cbn [last_opt]. specialize (IH (S idx) (st_of idx s)).
    destruct (last_opt (sched_entries b)) as [x|].
    + exact IH.
    + exists idx. exact IH.
Qed.

Lemma prev_active_st b : prev_active b = st_act (st_after 0 st0 b).
Proof.
  unfold prev_active. pose proof (st_after_last b 0 st0) as H.
  destruct (last_sched b) as [s|].
  - destruct H as [i ->]. reflexivity.
  - rewrite H. reflexivity.
Qed.

Lemma last_sched_none_switches b : last_sched b = None -> switches b = 0.
Proof.
  unfold last_sched, switches. destruct (sched_entries b) as [|s t]; [reflexivity|].
  cbn [last_opt]. destruct (last_opt t); discriminate.
Qed.

Theorem switches_le_preemptions b :
  pre_inv b ->
  forall s, last_sched b = Some s -> switches b <= preemptions s.
Proof.
  intros Hinv s Hlast.
  pose proof (switches_from_le _ _ _ Hinv) as Hle.
  pose proof (st_after_last b 0 st0) as Hst. rewrite Hlast in Hst.
  destruct Hst as [i Hst]. rewrite Hst in Hle. cbn [st0 st_act st_pre st_of] in Hle.
  unfold switches. lia.
Qed.

Lemma last_opt_In l s : last_opt l = Some s -> In s l.
Proof.
  induction l as [|x l IH]; cbn [last_opt]; [discriminate|].
  destruct (last_opt l) as [y|]; intros H; injection H as <-.
  - right. apply IH. reflexivity.
  - left. reflexivity.
Qed.

Lemma sched_entries_In b s : In s (sched_entries b) -> In (ESched s) b.
Proof.
  induction b as [|e b IH]; cbn [sched_entries]; [auto|].
  destruct e as [s0|l|sp]; cbn [In]; intros H.
  - destruct H as [->|H]; auto.
  - right; auto.
  - right; auto.
Qed.

Lemma last_sched_In b s : last_sched b = Some s -> In (ESched s) b.
Proof. intros H. apply sched_entries_In, last_opt_In. exact H. Qed.

Corollary switches_le_bound p bd :
  pre_inv (branches p) -> c15_inv p -> bound p = Some bd ->
  switches (branches p) <= bd.
Proof.
  intros Hinv Hc Hbd.
  destruct (last_sched (branches p)) as [s|] eqn:Hlast.
  - pose proof (switches_le_preemptions _ Hinv _ Hlast) as H1.
    pose proof (preemptions_le_bound p bd Hc Hbd s (last_sched_In _ _ Hlast)) as H2. lia.
  - rewrite (last_sched_none_switches _ Hlast). lia.
Qed.

(* ------------------------------------------------------------------ *)
(* 4. [last_sched] is what path.rs reads through [last_schedule]       *)
(* ------------------------------------------------------------------ *)

Lemma get_sched_cons e b i : get_sched (e :: b) (S i) = get_sched b i.
Proof. reflexivity. Qed.

Lemma fli_spec b : forall idx a,
  match find_last_index is_sched b with
  | Some i => exists s, get_sched b i = Some s /\ last_sched b = Some s /\
                        st_after idx a b = st_of (idx + i) s
  | None => last_sched b = None /\ st_after idx a b = a
  end.
Proof.
  unfold last_sched.
  induction b as [|e b IH]; intros idx a; cbn [find_last_index].
  - split; reflexivity.
  - destruct (find_last_index is_sched b) as [i|].
    + assert (Hany : forall a', exists s,
                get_sched b i = Some s /\ last_opt (sched_entries b) = Some s /\
                st_after (S idx) a' b = st_of (S idx + i) s) by (intros a'; apply IH).
      replace (idx + S i) with (S idx + i) by lia.
      destruct e as [s0|l|sp]; cbn [sched_entries last_opt st_after];
        [destruct (Hany (st_of idx s0)) as (s & H1 & H2 & H3)
        |destruct (Hany a) as (s & H1 & H2 & H3)..];
        exists s; rewrite get_sched_cons, H2; auto.
    + destruct e as [s0|l|sp]; cbn [is_sched sched_entries last_opt st_after].
      * destruct (IH (S idx) (st_of idx s0)) as [H1 H2].
        exists s0. rewrite H1, H2, Nat.add_0_r. auto.
      * apply IH.
      * apply IH.
Qed.

Lemma last_schedule_last_sched p :
  match last_schedule p with
  | Some i => get_sched (branches p) i
  | None => None
  end = last_sched (branches p).
Proof.
  unfold last_schedule. pose proof (fli_spec (branches p) 0 st0) as H.
  destruct (find_last_index is_sched (branches p)) as [i|].
  - destruct H as (s & H1 & H2 & _). congruence.
  - destruct H as [H _]. auto.
Qed.

(* ------------------------------------------------------------------ *)
(* 5. preservation                                                     *)
(* ------------------------------------------------------------------ *)

Lemma pre_inv_app b c : forall idx a,
  pre_inv_from idx a (b ++ c) <->
  pre_inv_from idx a b /\ pre_inv_from (idx + length b) (st_after idx a b) c.
Proof.
  induction b as [|e b IH]; intros idx a; cbn [app pre_inv_from st_after length].
  - rewrite Nat.add_0_r. tauto.
  - replace (idx + S (length b)) with (S idx + length b) by lia.
    destruct e as [s|l|sp]; rewrite IH; tauto.
Qed.

Lemma pre_inv_new : forall mb bd ex, pre_inv (branches (path_new mb bd ex)).
Proof. intros; exact I. Qed.

(* ---- entries that are not Schedule entries ---- *)
Lemma pre_inv_push_other b e :
  is_sched e = false -> pre_inv b -> pre_inv (b ++ [e]).
Proof.
  unfold pre_inv. intros He H. apply pre_inv_app. split; [exact H|].
  destruct e; [discriminate|exact I..].
Qed.

Lemma explore_state_pre_inv p p' :
  explore_state p = POk p' -> pre_inv (branches p) -> pre_inv (branches p').
Proof.
  unfold explore_state. intros H.
  destruct (skipping p); [injection H as <-; auto|].
  destruct (exploring p); [discriminate|]. injection H as <-. auto.
Qed.

Lemma critical_pre_inv p p' :
  critical p = POk p' -> pre_inv (branches p) -> pre_inv (branches p').
Proof.
  unfold critical. intros H.
  destruct (skipping p); [injection H as <-; auto|].
  destruct (exploring p); [|discriminate]. injection H as <-. auto.
Qed.

Lemma skip_branch_pre_inv p : pre_inv (branches p) -> pre_inv (branches (skip_branch p)).
Proof. auto. Qed.

Lemma push_load_pre_inv p seed p' :
  push_load p seed = POk p' -> pre_inv (branches p) -> pre_inv (branches p').
Proof.
  intros H. destruct (push_load_cases _ _ _ H) as (_ & _ & ->).
  cbn [set_branches branches]. apply pre_inv_push_other. reflexivity.
Qed.

Lemma branch_load_pre_inv p p' v :
  branch_load p = POk (p', v) -> pre_inv (branches p) -> pre_inv (branches p').
Proof. intros H. rewrite (branch_load_cases _ _ _ H). auto. Qed.

Lemma branch_spurious_pre_inv p p' b :
  branch_spurious p = POk (p', b) -> pre_inv (branches p) -> pre_inv (branches p').
Proof.
  intros H. destruct (branch_spurious_cases _ _ _ H) as [(_ & ->)|(_ & _ & ->)]; [auto|].
  cbn [set_pos set_branches branches]. apply pre_inv_push_other. reflexivity.
Qed.

(* ---- runnable_status is stable under marks and under step ---- *)
Lemma ext_t_runnable t t' : ext_t t t' -> runnable_status t' = runnable_status t.
Proof. intros [->|[-> ->]]; reflexivity. Qed.

Lemma Forall2_ext_t_nth l l' :
  Forall2 ext_t l l' ->
  forall u, runnable_status (nth u l' Disabled) = runnable_status (nth u l Disabled).
Proof.
  induction 1 as [|x y l l' Hxy Hl IH]; intros [|u]; cbn [nth]; auto using ext_t_runnable.
Qed.

Lemma visit_active_nth l :
  forall u, runnable_status (nth u (visit_active l) Disabled)
            = runnable_status (nth u l Disabled).
Proof.
  induction l as [|h t IH]; intros u; cbn [visit_active]; [reflexivity|].
  destruct (is_active h) eqn:Hh.
  - destruct u as [|u]; cbn [nth]; [|reflexivity].
    destruct h; try discriminate. reflexivity.
  - destruct u as [|u]; cbn [nth]; auto.
Qed.

Lemma activate_pending_nth l : forall l',
  activate_pending l = Some l' ->
  forall u, runnable_status (nth u l' Disabled) = runnable_status (nth u l Disabled).
Proof.
  induction l as [|h t IH]; intros l' H u; cbn [activate_pending] in H; [discriminate|].
  destruct (is_pending h) eqn:Hh.
  - injection H as <-. destruct u as [|u]; cbn [nth]; [|reflexivity].
    destruct h; try discriminate. reflexivity.
  - destruct (activate_pending t) as [t'|]; cbn [option_map] in H; [|discriminate].
    injection H as <-. destruct u as [|u]; cbn [nth]; auto.
Qed.

(* [link] reads of [s] only s_prev, s_pre, s_ia and which threads are runnable *)
Lemma link_sim a s th :
  (forall u, runnable_status (nth u th Disabled)
             = runnable_status (nth u (s_threads s) Disabled)) ->
  link a s -> link a (mkSched (s_pre s) (s_ia s) th (s_prev s) (s_ex s)).
Proof.
  unfold link, thread_status. cbn [s_prev s_pre s_ia s_threads].
  intros Hr (H1 & H2 & H3 & H4). repeat split; auto.
  destruct H4 as [H4|H4]; [left; exact H4|right].
  intros u Hu. rewrite Hr. auto.
Qed.

(* ---- backtrack ---- *)
Lemma pre_inv_ext b b' :
  Forall2 ext b b' -> forall idx a, pre_inv_from idx a b -> pre_inv_from idx a b'.
Proof.
  induction 1 as [|e e' l l' He Hl IH]; intros idx a H; [exact I|].
  destruct (ext_inv _ _ He) as [->|(s & th & -> & -> & Hex & Hth)].
  - destruct e as [s|ld|sp]; cbn [pre_inv_from] in *; [|auto..].
    destruct H as [H1 H2]. auto.
  - cbn [pre_inv_from] in *. destruct H as [H1 H2]. split.
    + apply link_sim; [|exact H1]. apply Forall2_ext_t_nth. exact Hth.
    + assert (Hst : st_of idx (mkSched (s_pre s) (s_ia s) th (s_prev s) (s_ex s))
                    = st_of idx s).
      { unfold st_of. rewrite (preemptions_ext_t _ _ Hth).
        unfold active_thread_index. cbn [s_threads].
        rewrite <- (ext_t_active_index _ _ Hth). reflexivity. }
      rewrite Hst. auto.
Qed.

Lemma backtrack_pre_inv p point tid p' :
  backtrack p point tid = POk p' -> pre_inv (branches p) -> pre_inv (branches p').
Proof.
  intros H. destruct (backtrack_marks _ _ _ _ H) as (_ & _ & _ & _ & _ & _ & Hbr).
  apply pre_inv_ext. exact Hbr.
Qed.

(* ---- step: entry k advanced, the entries above it dropped ---- *)
Lemma step_pre_inv p p' :
  step p = Some p' -> pre_inv (branches p) -> pre_inv (branches p').
Proof.
  intros H Hinv.
  destruct (step_cases _ _ H) as (kept & e & e' & popped & Hb & Hb' & Hadv & _).
  unfold pre_inv in *. rewrite Hb in Hinv. rewrite Hb'.
  apply pre_inv_app in Hinv. destruct Hinv as [Hk He].
  apply pre_inv_app. split; [exact Hk|].
  destruct e as [s|l|sp]; cbn [advance_entry] in Hadv.
  - destruct (negb (s_ex s)); [discriminate|].
    destruct (activate_pending (visit_active (s_threads s))) as [th|] eqn:Hap;
      [|discriminate].
    injection Hadv as <-. cbn [pre_inv_from] in *. destruct He as [Hl _].
    split; [|exact I]. apply link_sim; [|exact Hl].
    intros u. rewrite (activate_pending_nth _ _ Hap). apply visit_active_nth.
  - destruct (negb (l_ex l)); [discriminate|].
    destruct (Nat.ltb _ _) in Hadv; [|discriminate]. injection Hadv as <-. exact I.
  - destruct (negb (p_ex sp)); [discriminate|].
    destruct (p_spur sp); [discriminate|]. injection Hadv as <-. exact I.
Qed.

(* ---- branch_thread ---- *)
(* the thread array of a new Schedule entry *)
Definition seed_threads (seed : list tstat) : list tstat :=
  let threads0 := pad_to MAX_THREADS Disabled seed in
  match find_index is_active threads0 with
  | Some _ => threads0
  | None => activate_first_yield threads0
  end.

(* the Schedule entry [branch_thread] pushes on a traversed path *)
Definition new_sched (p : path) (seed : list tstat) : schedule :=
  let threads := seed_threads seed in
  let active := find_index is_active threads in
  let prev_s := match last_schedule p with
                | Some i => get_sched (branches p) i
                | None => None
                end in
  let ia := match prev_s with
            | Some ps => if opt_nat_eqb active (active_thread_index ps) then active else None
            | None => active
            end in
  let pre := match prev_s with Some ps => preemptions ps | None => 0 end in
  mkSched pre ia threads (last_schedule p) (exploring p).

Lemma branch_thread_pushed p seed p' t :
  branch_thread p seed = POk (p', t) ->
  (is_traversed p = false /\ branches p' = branches p) \/
  (is_traversed p = true /\ length seed <= MAX_THREADS /\
   branches p' = branches p ++ [ESched (new_sched p seed)]).
Proof.
  unfold branch_thread. intros H.
  destruct (is_traversed p).
  - right. destruct (path_len_ok p); cbn [negb] in H; [|discriminate].
    destruct (Nat.ltb MAX_THREADS (length seed)) eqn:Hlen; [discriminate|].
    apply Nat.ltb_ge in Hlen.
    destruct (Nat.ltb 1 (length (filter is_active seed))); [discriminate|].
    cbv zeta in H.
    match type of H with
    | context [mkSched ?pre ?ia ?th ?prev ?ex] =>
        change (mkSched pre ia th prev ex) with (new_sched p seed) in H;
        set (PRE := pre) in *
    end.
    destruct (opt_le_bound PRE (bound p)); cbn [negb] in H; [|discriminate].
    cbv iota in H.
    destruct (nth_error _ _) as [[s|l|s]|] in H; try discriminate.
    injection H as <- _. auto.
  - left. cbv iota in H.
    destruct (nth_error _ _) as [[s|l|s]|] in H; try discriminate.
    injection H as <- _. auto.
Qed.

Lemma pad_to_find_active n : forall l,
  length l <= n ->
  find_index is_active (pad_to n Disabled l) = find_index is_active l.
Proof.
  induction n as [|n IH]; intros [|h t] Hl; cbn [pad_to find_index length] in *;
    try reflexivity; try lia.
  - cbn [is_active tstat_eqb]. rewrite (IH [] (Nat.le_0_l n)). reflexivity.
  - rewrite IH by lia. reflexivity.
Qed.

Lemma pad_to_nth n : forall l u,
  length l <= n -> nth u (pad_to n Disabled l) Disabled = nth u l Disabled.
Proof.
  induction n as [|n IH]; intros [|h t] u Hl; cbn [pad_to length] in *; try lia.
  - destruct u; reflexivity.
  - destruct u as [|u]; cbn [nth]; [reflexivity|].
    rewrite (IH [] u (Nat.le_0_l n)). destruct u; reflexivity.
  - destruct u as [|u]; cbn [nth]; [reflexivity|]. apply IH. lia.
Qed.

Lemma activate_first_yield_nth l :
  find_index is_active l = None ->
  forall u, nth u (activate_first_yield l) Disabled = nth u l Disabled \/
            find_index is_active (activate_first_yield l) = Some u.
Proof.
  induction l as [|h t IH]; intros Hna u; cbn [activate_first_yield]; [left; reflexivity|].
  cbn [find_index] in Hna.
  destruct (is_active h) eqn:Hh; [discriminate|].
  destruct (find_index is_active t) as [j|] eqn:Ht; [discriminate|].
  specialize (IH eq_refl).
  destruct h; try discriminate;
    try (destruct u as [|u]; [left; reflexivity|];
         destruct (IH u) as [IHu|IHu]; [left; exact IHu|right];
         cbn [find_index is_active tstat_eqb]; rewrite IHu; reflexivity).
  (* h = TYield *)
  destruct u as [|u]; [right; reflexivity|left; reflexivity].
Qed.

(* the seed hypothesis, carried to the thread array of the new entry *)
Lemma seed_threads_ok pa seed :
  length seed <= MAX_THREADS -> seed_switch_ok pa seed ->
  forall u, pa = Some u -> find_index is_active (seed_threads seed) <> Some u ->
            runnable_status (nth u (seed_threads seed) Disabled) = false.
Proof.
  intros Hlen Hseed u Hu. unfold seed_threads. cbv zeta.
  pose proof (pad_to_find_active MAX_THREADS seed Hlen) as Hfi.
  pose proof (fun v => pad_to_nth MAX_THREADS seed v Hlen) as Hnth.
  set (TH0 := pad_to MAX_THREADS Disabled seed) in *.
  destruct (find_index is_active TH0) as [j|] eqn:Hact; intros Hne; cbv iota in Hne |- *.
  - rewrite Hact, Hfi in Hne. rewrite Hnth.
    destruct (Hseed u Hu Hne) as [->| ->]; reflexivity.
  - destruct (activate_first_yield_nth _ Hact u) as [Heq|Heq]; [|contradiction].
    rewrite Heq, Hnth.
    destruct (Hseed u Hu) as [->| ->]; try reflexivity. rewrite <- Hfi. discriminate.
Qed.

Lemma new_sched_link p seed :
  length seed <= MAX_THREADS ->
  seed_switch_ok (prev_active (branches p)) seed ->
  link (st_after 0 st0 (branches p)) (new_sched p seed).
Proof.
  intros Hlen Hseed. rewrite prev_active_st in Hseed.
  pose proof (seed_threads_ok _ _ Hlen Hseed) as Hok.
  unfold new_sched, last_schedule. cbv zeta.
  pose proof (fli_spec (branches p) 0 st0) as Hf.
  set (ACT := find_index is_active (seed_threads seed)) in *.
  destruct (find_last_index is_sched (branches p)) as [i|].
  - destruct Hf as (ps & Hg & _ & Hst). cbn [Nat.add] in Hst.
    rewrite Hg, Hst in *. cbn [st_of st_act st_idx st_pre] in *.
    unfold link, thread_status. cbn [s_prev s_pre s_ia s_threads st_idx st_pre st_act st_of st0].
    split; [reflexivity|]. split; [reflexivity|].
    destruct (opt_nat_eqb ACT (active_thread_index ps)) eqn:Heq.
    + apply opt_nat_eqb_eq in Heq. split.
      * intros _ j Hj. congruence.
      * left. exact Heq.
    + split.
      * intros _ j Hj. discriminate.
      * right. intros u Hu. apply Hok; [exact Hu|].
        intros Hc. rewrite Hc, <- Hu, opt_nat_eqb_refl in Heq. discriminate.
  - destruct Hf as [_ Hst]. rewrite Hst in *. cbn [st0 st_act st_idx st_pre] in *.
    unfold link, thread_status. cbn [s_prev s_pre s_ia s_threads st_idx st_pre st_act st_of st0].
    split; [reflexivity|]. split; [reflexivity|]. split.
    + intros Hc. exfalso. apply Hc. reflexivity.
    + destruct (opt_nat_eqb ACT (Some 0)) eqn:Heq.
      * left. apply opt_nat_eqb_eq. exact Heq.
      * right. intros u Hu. apply Hok; [exact Hu|].
        intros Hc. rewrite Hc, <- Hu, opt_nat_eqb_refl in Heq. discriminate.
Qed.

(* the seed matters only when an entry is pushed (path traversed) *)
Lemma branch_thread_pre_inv_gen p seed p' t :
  pre_inv (branches p) ->
  (is_traversed p = true -> seed_switch_ok (prev_active (branches p)) seed) ->
  branch_thread p seed = POk (p', t) -> pre_inv (branches p').
Proof.
  intros Hinv Hseed H.
  destruct (branch_thread_pushed _ _ _ _ H) as [(_ & ->)|(Htr & Hlen & ->)]; [exact Hinv|].
  unfold pre_inv. apply pre_inv_app. split; [exact Hinv|].
  cbn [pre_inv_from]. split; [|exact I].
  apply new_sched_link; auto.
Qed.

Lemma branch_thread_pre_inv p seed p' t :
  pre_inv (branches p) ->
  seed_ok (prev_active (branches p)) seed ->
  branch_thread p seed = POk (p', t) -> pre_inv (branches p').
Proof.
  intros Hinv [Hseed _]. apply branch_thread_pre_inv_gen; auto.
Qed.

(* initial_active of a pushed entry, when set, is the Active thread of its
   (completed) seed *)
Lemma new_sched_ia p seed i :
  s_ia (new_sched p seed) = Some i ->
  find_index is_active (seed_threads seed) = Some i.
Proof.
  unfold new_sched. cbv zeta. cbn [s_ia].
  destruct (match last_schedule p with Some j => get_sched (branches p) j | None => None end)
    as [ps|]; [|auto].
  destruct (opt_nat_eqb _ _); [auto|discriminate].
Qed.

(* ------------------------------------------------------------------ *)
(* 6. every path reachable through the API                             *)
(* ------------------------------------------------------------------ *)

Inductive reach (mb : nat) (bd : option nat) (ex : bool) : path -> Prop :=
  | r_new : reach mb bd ex (path_new mb bd ex)
  | r_explore p p' : reach mb bd ex p -> explore_state p = POk p' -> reach mb bd ex p'
  | r_critical p p' : reach mb bd ex p -> critical p = POk p' -> reach mb bd ex p'
  | r_skip p : reach mb bd ex p -> reach mb bd ex (skip_branch p)
  | r_push_load p seed p' : reach mb bd ex p -> push_load p seed = POk p' -> reach mb bd ex p'
  | r_branch_load p p' v : reach mb bd ex p -> branch_load p = POk (p', v) -> reach mb bd ex p'
  | r_branch_spurious p p' b :
      reach mb bd ex p -> branch_spurious p = POk (p', b) -> reach mb bd ex p'
  | r_branch_thread p seed p' t :
      reach mb bd ex p ->
      (is_traversed p = true -> seed_ok (prev_active (branches p)) seed) ->
      branch_thread p seed = POk (p', t) -> reach mb bd ex p'
  | r_backtrack p point tid p' :
      reach mb bd ex p -> backtrack p point tid = POk p' -> reach mb bd ex p'
  | r_step p p' : reach mb bd ex p -> step p = Some p' -> reach mb bd ex p'.

Lemma seed_ok_no_pending pa seed : seed_ok pa seed -> Forall (fun t => t <> Pending) seed.
Proof. intros [_ H]. eapply Forall_impl; [|exact H]. cbn. tauto. Qed.

Lemma reach_inv mb bd ex p :
  reach mb bd ex p -> bound p = bd /\ pre_inv (branches p) /\ c15_inv p.
Proof.
  induction 1 as [|p p' Hr IH H|p p' Hr IH H|p Hr IH|p seed p' Hr IH H|p p' v Hr IH H
                 |p p' b Hr IH H|p seed p' t Hr IH Hseed H|p point tid p' Hr IH H
                 |p p' Hr IH H];
    try destruct IH as (Hb & Hp & Hc).
  - repeat split. constructor.
  - destruct (explore_state_extends _ _ H) as [(Hb' & _) _].
    split; [congruence|]. eauto using explore_state_pre_inv, explore_state_c15.
  - destruct (critical_extends _ _ H) as [(Hb' & _) _].
    split; [congruence|]. eauto using critical_pre_inv, critical_c15.
  - repeat split; auto using skip_branch_c15.
  - destruct (push_load_extends _ _ _ H) as [(Hb' & _) _].
    split; [congruence|]. eauto using push_load_pre_inv, push_load_c15.
  - destruct (branch_load_extends _ _ _ H) as [(Hb' & _) _].
    split; [congruence|]. eauto using branch_load_pre_inv, branch_load_c15.
  - destruct (branch_spurious_extends _ _ _ H) as [(Hb' & _) _].
    split; [congruence|]. eauto using branch_spurious_pre_inv, branch_spurious_c15.
  - destruct (branch_thread_extends _ _ _ _ H) as [(Hb' & _) _].
    split; [congruence|]. split.
    + eapply branch_thread_pre_inv_gen; [exact Hp| |exact H].
      intros Htr. apply (Hseed Htr).
    + destruct (branch_thread_cases _ _ _ _ H) as [(_ & ->)|(Htr & _)].
      * eapply c15_same_branches; [| |exact Hc]; reflexivity.
      * eapply branch_thread_c15; [|exact H|exact Hc].
        eapply seed_ok_no_pending. exact (Hseed Htr).
  - destruct (backtrack_extends _ _ _ _ H) as [(Hb' & _) _].
    split; [congruence|]. eauto using backtrack_pre_inv, backtrack_c15.
  - destruct (step_cases _ _ H) as (_ & _ & _ & _ & _ & _ & _ & _ & Hb' & _).
    split; [congruence|]. eauto using step_pre_inv, step_c15.
Qed.

(* C15 *)
Theorem reach_switches_le_bound mb n ex p :
  reach mb (Some n) ex p -> switches (branches p) <= n.
Proof.
  intros H. destruct (reach_inv _ _ _ _ H) as (Hb & Hp & Hc).
  eapply switches_le_bound; eassumption.
Qed.

(* ------------------------------------------------------------------ *)
(* 7. two concrete stacks                                              *)
(* ------------------------------------------------------------------ *)

(* (i) two threads; thread 0 runs, is preempted at the second scheduling point
   in favour of thread 1: one switch, one stored preemption.
   The stack is the one the API builds: two branch_thread calls, a backtrack
   request for thread 1 at the second point, step. *)
Definition run_i : option path :=
  match branch_thread (path_new 1000 (Some 2) true) [Active; Skip] with
  | POk (p1, _) =>
      match branch_thread p1 [Active; Skip] with
      | POk (p2, _) =>
          match backtrack p2 1 1 with
          | POk p3 => step p3
          | PErr _ => None
          end
      | PErr _ => None
      end
  | PErr _ => None
  end.

Definition stack_i : list entry :=
  [ ESched (mkSched 0 (Some 0) [Active; Pending; Disabled; Disabled; Disabled] None true);
    ESched (mkSched 0 (Some 0) [Visited; Active; Disabled; Disabled; Disabled] (Some 0) true) ].

Example run_i_stack : option_map branches run_i = Some stack_i.
Proof. vm_compute. reflexivity. Qed.

Example stack_i_counts :
  switches stack_i = 1 /\
  option_map preemptions (last_sched stack_i) = Some 1.
Proof. vm_compute. split; reflexivity. Qed.

(* (ii) at the first scheduling point the running thread 0 is blocked; the
   default choice is thread 1 (initial_active = Some 1), and the exploration
   then runs thread 2 instead.  Thread 0 could not have continued, so this is
   not a switch in the independent reading, but loom counts a preemption. *)
Definition run_ii : option path :=
  match branch_thread (path_new 1000 (Some 2) true) [Disabled; Active; Skip] with
  | POk (p1, _) =>
      match backtrack p1 0 2 with
      | POk p2 => step p2
      | PErr _ => None
      end
  | PErr _ => None
  end.

Definition stack_ii : list entry :=
  [ ESched (mkSched 0 (Some 1) [Disabled; Visited; Active; Disabled; Disabled] None true) ].

Example run_ii_stack : option_map branches run_ii = Some stack_ii.
Proof. vm_compute. reflexivity. Qed.

Example stack_ii_counts :
  switches stack_ii = 0 /\
  option_map preemptions (last_sched stack_ii) = Some 1.
Proof. vm_compute. split; reflexivity. Qed.

(* both seeds used above satisfy the seed hypothesis *)
Example seed_i_ok : seed_ok (Some 0) [Active; Skip].
Proof.
  split.
  - intros u Hu Hne. injection Hu as <-. exfalso. apply Hne. reflexivity.
  - repeat constructor; discriminate.
Qed.

Example seed_ii_ok : seed_ok (Some 0) [Disabled; Active; Skip].
Proof.
  split.
  - intros u Hu _. injection Hu as <-. left. reflexivity.
  - repeat constructor; discriminate.
Qed.

Print Assumptions switches_le_preemptions.
Print Assumptions switches_le_bound.
Print Assumptions branch_thread_pre_inv.
Print Assumptions backtrack_pre_inv.
Print Assumptions step_pre_inv.
Print Assumptions reach_switches_le_bound.
