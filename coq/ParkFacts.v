(* ParkFacts: thread::park / Thread::unpark (rt::park, Thread::set_unparked,
   Set::unpark) after loom fix 91a3e2b: the park token is the separate thread
   field [t_token]; "parked" is [is_parked t] = Blocked with no pending
   operation.

   Contents
     0. tinv b Q e: "thread b exists and satisfies Q", a generic per-thread
        invariant; framing lemmas in continuation style for every helper of
        Ops.v and for schedule; exec_micro_tinv: ONE proof for all
        micro-operations ([destruct m; ti_tac], same structure as
        NotifyFacts.exec_micro_bw), parameterised by
          - who executes: [me <> b] or Q only looks at the token (self_ok),
          - m = MPark only by another thread,
          - the unpark targets of m (MUnpark, MCvNotify) do not contain b, or Q
            is kept by set_unparked (wake_ok).
     1. A.1 token_persists (+ _fail, tsteps_token_persists)
     2. A.2 unpark_effect, set_unparked_cases, threads_unpark_exact,
        threads_unpark_effect (Set::unpark itself: reused by CondvarFacts)
     3. A.3 park_effect_token, park_effect_block, park_blocks
     4. A.4 no_lost_unpark; the safety half parked_stays_parked (all
        micro-operations: exec_micro_parked; sequences: parked_until_unpark),
        unpark_targets_spec, unpark_needed (converse reading), park_until_unpark
     5. concrete runs (vm_compute): park_then_unpark_run, unpark_then_park_run

   DEVIATIONS from the requested statements: see the end of the file. *)
Require Import LV.Base LV.VV LV.VVFacts LV.Path LV.PathSpec LV.PathApi LV.Prog LV.Objects
               LV.Exec LV.Atomic LV.Ops LV.Check LV.SyncFacts LV.ExecFacts LV.SyncMono
               LV.NotifyFacts.
From Coq Require Import List Arith Lia Bool.
Import ListNotations.

(* ================================================================== *)
(* 0. A generic per-thread invariant                                   *)
(* ================================================================== *)

(* the threads that micro-operation m unparks (Set::unpark) in state e *)
Definition unpark_targets (e : exec) (m : micro) : list nat :=
  match m with
  | MUnpark bd => match body_tid e bd with Some tid => [tid] | None => [] end
  | MCvNotify c all =>
      match nth_error (e_objects e) c with
      | Some (OCondvar s) => if all then cv_waiters s else firstn 1 (cv_waiters s)
      | _ => []
      end
  | _ => []
  end.

Lemma pend_act obj a t : pending_on_act obj a t = true -> pending_on obj t = true.
Proof.
  unfold pending_on_act, pending_on. destruct (t_op t); [|discriminate].
  intros H. apply andb_true_iff in H. tauto.
Qed.

Lemma pend_and obj t x : pending_on obj t && x = true -> pending_on obj t = true.
Proof. intros H. apply andb_true_iff in H. tauto. Qed.

Section TInv.
Variable b : nat.
Variable Q : thread -> Prop.

Definition tinv (e : exec) : Prop := exists t, nth_error (e_threads e) b = Some t /\ Q t.
Definition qpres (f : thread -> thread) : Prop := forall t, Q t -> Q (f t).

(* Q only looks at the park token *)
Definition self_ok : Prop := forall t t', t_token t' = t_token t -> Q t -> Q t'.
(* Q survives an unpark *)
Definition wake_ok : Prop := self_ok /\ qpres set_unparked.

(* what the scheduler and the wake-ups / blockings aimed at the threads with a
   pending operation on an object do *)
Hypothesis Q_dpor : forall v, qpres (fun t => th_set_dpor t v).
Hypothesis Q_react : forall t, Q t -> is_yield t = true -> Q (set_runnable t).
Hypothesis Q_wake : forall m t, Q t -> pending_on m t = true -> Q (set_runnable t).
Hypothesis Q_block : forall m t, Q t -> pending_on m t = true -> Q (set_blocked t).
Hypothesis Q_notified : forall m c t, Q t -> pending_on m t = true -> Q (thread_notified t c).

Lemma tinv_set_threads_k e ths :
  (forall t, nth_error (e_threads e) b = Some t -> Q t ->
     exists t', nth_error ths b = Some t' /\ Q t') ->
  tinv e -> tinv (ex_set_threads e ths).
Proof. intros H (t & Ht & Hq). destruct (H t Ht Hq) as (t' & Ht' & Hq'). exists t'. auto. Qed.

Lemma tinv_same_k e e' : e_threads e' = e_threads e -> tinv e -> tinv e'.
Proof. intros Ht H. unfold tinv. rewrite Ht. exact H. Qed.

Lemma tinv_upd_thread_k e i f : i <> b \/ qpres f -> tinv e -> tinv (upd_thread e i f).
Proof.
  intros Hf. apply tinv_set_threads_k. intros t Ht Hq.
  destruct (Nat.eq_dec i b) as [->|Hne].
  - destruct Hf as [Hf|Hf]; [destruct (Hf eq_refl)|].
    rewrite nth_error_list_upd_same, Ht. cbn [option_map]. eauto.
  - rewrite nth_error_list_upd_other by exact Hne. eauto.
Qed.

Lemma tinv_mapi_k e g : (forall id, qpres (g id)) -> tinv e ->
  tinv (ex_set_threads e (mapi g (e_threads e))).
Proof.
  intros Hg. apply tinv_set_threads_k. intros t Ht Hq.
  rewrite nth_error_mapi, Ht. cbn [option_map]. eexists; split; [reflexivity|]. apply Hg, Hq.
Qed.

Lemma tinv_map_others_k e me p f :
  (forall t, Q t -> p t = true -> Q (f t)) -> tinv e -> tinv (map_others e me p f).
Proof.
  intros Hf. unfold map_others. apply tinv_mapi_k. intros id t Hq.
  destruct (negb (Nat.eqb id me)); cbn [andb]; [|exact Hq].
  destruct (p t) eqn:Hp; [apply Hf; assumption|exact Hq].
Qed.

Lemma tinv_append_threads_k e l : tinv e -> tinv (ex_set_threads e (e_threads e ++ l)).
Proof.
  apply tinv_set_threads_k. intros t Ht Hq. exists t. split; [|exact Hq].
  rewrite nth_error_app1; [exact Ht|]. apply nth_error_Some. congruence.
Qed.

Lemma tinv_log_op_k e me r : tinv e -> tinv (log_op e me r).
Proof. apply tinv_same_k, e_threads_log_op. Qed.

Lemma tinv_log_poll_k e me : tinv e -> tinv (log_poll e me).
Proof. apply tinv_same_k, e_threads_log_poll. Qed.

Lemma qpres_thread_unpark c : wake_ok -> qpres (fun t => thread_unpark t c).
Proof.
  intros [Hs Hu] t Hq. unfold thread_unpark. apply Hu. eapply Hs; [|exact Hq]. reflexivity.
Qed.

Lemma tinv_threads_unpark_k e me id : wake_ok \/ id <> b -> tinv e -> tinv (threads_unpark e me id).
Proof.
  intros Hw H. unfold threads_unpark. destruct (Nat.eqb id me) eqn:E.
  - apply Nat.eqb_eq in E. subst id. apply tinv_upd_thread_k; [|exact H].
    destruct Hw as [[_ Hu]|Hne]; [right; exact Hu|left; exact Hne].
  - apply tinv_upd_thread_k; [|exact H].
    destruct Hw as [Hw|Hne]; [right; apply qpres_thread_unpark, Hw|left; exact Hne].
Qed.

Lemma tinv_fold_unpark_k me l : wake_ok \/ ~ In b l -> forall e,
  tinv e -> tinv (fold_left (fun e t => threads_unpark e me t) l e).
Proof.
  intros Hw. induction l as [|x l IH]; intros e H; cbn [fold_left]; [exact H|].
  apply IH.
  - destruct Hw as [Hw|Hn]; [left; exact Hw|right]. intros Hi. apply Hn. right. exact Hi.
  - apply tinv_threads_unpark_k; [|exact H].
    destruct Hw as [Hw|Hn]; [left; exact Hw|right]. intros ->. apply Hn. left. reflexivity.
Qed.

Lemma tinv_sched_note_k e nx pid th : tinv e -> tinv (sched_note e nx pid th).
Proof.
  intros H. unfold sched_note. destruct (t_op th) as [op|]; [|exact H].
  destruct (nth_error (e_objects e) (op_obj op)) as [o|]; [|exact H].
  cbv zeta.
  match goal with |- tinv (upd_object ?E _ _) => apply (tinv_same_k E); [reflexivity|] end.
  apply tinv_upd_thread_k; [right; apply Q_dpor|exact H].
Qed.

Lemma qpres_reactivate nx id :
  qpres (fun th => if is_yield th && negb (Nat.eqb id nx) then set_runnable th else th).
Proof.
  intros t Hq. destruct (is_yield t) eqn:Hy; cbn [andb]; [|exact Hq].
  destruct (negb (Nat.eqb id nx)); [apply Q_react; assumption|exact Hq].
Qed.

Lemma schedule_tinv e : tinv e -> tinv (res_exec (fst (schedule e))).
Proof.
  intros H.
  destruct (schedule_cases e)
    as [(c & ->)|[(x & ->)|[(p1 & x & Hd & ->)|(curr & cur_th & p1 & p2 & next & Hp & ->)]]];
    cbn [fst res_exec]; try exact H.
  assert (Hb : tinv (sched_base e p2 next)) by exact H.
  revert Hb. generalize (sched_base e p2 next). intros e1 Hb.
  unfold sched_post. destruct next as [nx|].
  - destruct (nth_error (e_threads e1) nx) as [th|]; cbn [fst res_exec]; [|exact Hb].
    unfold reactivate. apply tinv_mapi_k; [intros id; apply qpres_reactivate|].
    apply tinv_sched_note_k, Hb.
  - destruct (forallb is_terminated (e_threads e1)); cbn [fst res_exec]; exact Hb.
Qed.

(* an update of the executing thread that leaves the token alone *)
Ltac tok_eq :=
  cbv beta;
  repeat match goal with
         | |- context [match ?x with _ => _ end] => destruct x
         end;
  reflexivity.

Ltac own Hme :=
  let Hne := fresh "Hne" in
  let Hs := fresh "Hs" in
  let t := fresh "t" in
  let Ht := fresh "Ht" in
  destruct Hme as [Hne|Hs];
  [left; exact Hne
  |right; intros t Ht; eapply Hs; [|exact Ht]; tok_eq].

Lemma do_branch_tinv e me obj act blk :
  me <> b \/ self_ok -> tinv e -> tinv (res_exec (do_branch e me obj act blk)).
Proof.
  intros Hme H. unfold do_branch. apply schedule_tinv. apply tinv_upd_thread_k; [own Hme|exact H].
Qed.

(* park: only by another thread *)
Lemma do_park_tinv e me : me <> b -> tinv e -> tinv (res_exec (do_park e me)).
Proof.
  intros Hmb H. unfold do_park. destruct (get_thread e me) as [t|]; [|exact H].
  destruct (t_token t); cbn [res_exec].
  - apply tinv_upd_thread_k; [left; exact Hmb|exact H].
  - apply schedule_tinv. apply tinv_upd_thread_k; [left; exact Hmb|exact H].
Qed.

Lemma do_yield_tinv e me : me <> b \/ self_ok -> tinv e -> tinv (res_exec (do_yield e me)).
Proof.
  intros Hme H. unfold do_yield. apply schedule_tinv. apply tinv_upd_thread_k; [own Hme|exact H].
Qed.

Lemma release_lock_tinv e me m : tinv e -> tinv (release_lock e me m).
Proof.
  intros H. unfold release_lock. destruct (get_mutex e m) as [s|]; [|exact H].
  cbv zeta. rewrite e_active_upd_object. destruct (e_active e); [|exact H].
  apply tinv_map_others_k; [intros t Hq Hp; eapply Q_wake; eassumption|].
  exact H.
Qed.

Lemma tinv_set_caus_k e me v : me <> b \/ self_ok -> tinv e -> tinv (set_caus e me v).
Proof. intros Hme. apply tinv_upd_thread_k. own Hme. Qed.

Lemma post_acquire_tinv e me m : me <> b \/ self_ok -> tinv e -> tinv (fst (post_acquire e me m)).
Proof.
  intros Hme H. unfold post_acquire. destruct (get_mutex e m) as [s|]; [|exact H].
  destruct (is_some (mx_lock s)); cbn [fst]; [exact H|].
  apply tinv_map_others_k; [intros t Hq Hp; eapply Q_block; [exact Hq|eapply pend_and; exact Hp]|].
  apply tinv_set_caus_k; [exact Hme|]. exact H.
Qed.

Lemma post_acquire_read_tinv e me r :
  me <> b \/ self_ok -> tinv e -> tinv (fst (post_acquire_read e me r)).
Proof.
  intros Hme H. unfold post_acquire_read. destruct (get_rw e r) as [s|]; [|exact H].
  destruct (rw_lock s) as [[rs|x]|]; cbn [fst]; try exact H.
  all: apply tinv_map_others_k;
    [intros t Hq Hp; eapply Q_block; [exact Hq|eapply pend_act; exact Hp]|];
    apply tinv_set_caus_k; [exact Hme|]; exact H.
Qed.

Lemma post_acquire_write_tinv e me r :
  me <> b \/ self_ok -> tinv e -> tinv (fst (post_acquire_write e me r)).
Proof.
  intros Hme H. unfold post_acquire_write. destruct (get_rw e r) as [s|]; [|exact H].
  destruct (rw_lock s) as [lk|]; cbn [fst]; try exact H.
  apply tinv_map_others_k;
    [intros t Hq Hp; eapply Q_block; [exact Hq|]|].
  - apply andb_true_iff in Hp. destruct Hp as [Hp _]. eapply pend_and; exact Hp.
  - apply tinv_set_caus_k; [exact Hme|]; exact H.
Qed.

Lemma release_read_tinv e me r : tinv e -> tinv (res_exec (release_read e me r)).
Proof.
  intros H. unfold release_read. destruct (get_rw e r) as [s|]; [|exact H].
  cbv zeta. destruct (rw_lock s) as [[rs|x]|]; cbn [res_exec]; try exact H.
  destruct (set_remove me rs); cbn [res_exec]; [|exact H].
  apply tinv_map_others_k; [intros t Hq Hp; eapply Q_wake; eassumption|]. exact H.
Qed.

Lemma release_write_tinv e me r : tinv e -> tinv (res_exec (release_write e me r)).
Proof.
  intros H. unfold release_write. destruct (get_rw e r) as [s|]; [|exact H].
  cbn [res_exec].
  apply tinv_map_others_k; [intros t Hq Hp; eapply Q_wake; eassumption|]. exact H.
Qed.

Lemma choose_store_tinv e seed : tinv e -> tinv (fst (choose_store e seed)).
Proof. destruct (choose_store_frame e seed) as (H1 & _). apply tinv_same_k. exact H1. Qed.

Ltac mo_side :=
  let t := fresh "t" in
  let Hq := fresh "Hq" in
  let Hp := fresh "Hp" in
  intros t Hq Hp;
  first [ eapply Q_wake; [exact Hq|exact Hp]
        | eapply Q_notified; [exact Hq|exact Hp]
        | eapply Q_block; [exact Hq|first [exact Hp|eapply pend_act; exact Hp|eapply pend_and; exact Hp]] ].

Ltac tclose_step Hme :=
  match goal with
  | H : tinv ?x |- tinv ?x => exact H
  | H : tinv _ -> tinv ?x |- tinv ?x => apply H
  | |- tinv (log_op _ _ _) => apply tinv_log_op_k
  | |- tinv (log_poll _ _) => apply tinv_log_poll_k
  | |- tinv (release_lock _ _ _) => apply release_lock_tinv
  | |- tinv (map_others _ _ _ _) => apply tinv_map_others_k; [mo_side|]
  | |- tinv (ex_set_threads ?e (e_threads ?e ++ _)) => apply tinv_append_threads_k
  | |- tinv (push_cont _ _ _) => apply tinv_upd_thread_k; [own Hme|]
  | |- tinv (push_guard _ _ _ _) => apply tinv_upd_thread_k; [own Hme|]
  | |- tinv (drop_guard _ _ _ _) => apply tinv_upd_thread_k; [own Hme|]
  | |- tinv (causality_inc _ _) => apply tinv_upd_thread_k; [own Hme|]
  | |- tinv (set_caus _ _ _) => apply tinv_upd_thread_k; [own Hme|]
  | |- tinv (upd_thread _ _ _) => apply tinv_upd_thread_k; [own Hme|]
  | |- tinv (upd_object ?e _ _) => apply (tinv_same_k e); [reflexivity|]
  | |- tinv (upd_hobj ?e _ _) => apply (tinv_same_k e); [reflexivity|]
  | |- tinv (set_slot ?e _ _ _) => apply (tinv_same_k e); [reflexivity|]
  | |- tinv (ex_set_objects ?e _) => apply (tinv_same_k e); [reflexivity|]
  | |- tinv (ex_set_path ?e _) => apply (tinv_same_k e); [reflexivity|]
  | |- tinv (ex_set_active ?e _) => apply (tinv_same_k e); [reflexivity|]
  | |- tinv (ex_set_seqcst ?e _) => apply (tinv_same_k e); [reflexivity|]
  | |- tinv (ex_set_spawned ?e _) => apply (tinv_same_k e); [reflexivity|]
  | |- tinv (ex_set_joined ?e _) => apply (tinv_same_k e); [reflexivity|]
  | |- tinv (ex_set_log ?e _) => apply (tinv_same_k e); [reflexivity|]
  | |- tinv (ex_set_lazy ?e _) => apply (tinv_same_k e); [reflexivity|]
  | |- tinv (ex_set_h ?e _) => apply (tinv_same_k e); [reflexivity|]
  end.

Ltac tclose Hme := cbn [res_exec lp_exec]; repeat tclose_step Hme.

Ltac tstep Hme :=
  match goal with
  | |- tinv (res_exec (fst (schedule _))) => apply schedule_tinv
  | |- tinv (res_exec (do_branch _ _ _ _ _)) => apply do_branch_tinv; [exact Hme|]
  | |- tinv (res_exec (do_yield _ _)) => apply do_yield_tinv; [exact Hme|]
  | |- tinv ?G =>
      match G with
      | context [post_acquire ?e ?me ?m] =>
          let H := fresh "Hfr" in
          pose proof (post_acquire_tinv e me m Hme) as H;
          destruct (post_acquire e me m); cbn [fst] in H
      | context [post_acquire_read ?e ?me ?m] =>
          let H := fresh "Hfr" in
          pose proof (post_acquire_read_tinv e me m Hme) as H;
          destruct (post_acquire_read e me m); cbn [fst] in H
      | context [post_acquire_write ?e ?me ?m] =>
          let H := fresh "Hfr" in
          pose proof (post_acquire_write_tinv e me m Hme) as H;
          destruct (post_acquire_write e me m); cbn [fst] in H
      | context [release_read ?e ?me ?m] =>
          let H := fresh "Hfr" in
          pose proof (release_read_tinv e me m) as H;
          destruct (release_read e me m); cbn [res_exec] in H
      | context [release_write ?e ?me ?m] =>
          let H := fresh "Hfr" in
          pose proof (release_write_tinv e me m) as H;
          destruct (release_write e me m); cbn [res_exec] in H
      | context [choose_store ?e ?s] =>
          let H := fresh "Hfr" in
          pose proof (choose_store_tinv e s) as H;
          destruct (choose_store e s) as [? [?|?]]; cbn [fst] in H
      end
  | |- context [match ?x with _ => _ end] =>
      lazymatch x with
      | context [match _ with _ => _ end] => fail
      | _ => destruct x eqn:?
      end
  end; cbv beta iota.

Lemma load_post_tinv e me a o :
  me <> b \/ self_ok -> tinv e -> tinv (lp_exec (load_post e me a o)).
Proof. intros Hme H0. unfold load_post. repeat tstep Hme. all: tclose Hme. Qed.

Ltac tstep' Hme :=
  first [ match goal with
          | |- tinv ?G =>
              match G with
              | context [load_post ?e ?me ?a ?o] =>
                  let H := fresh "Hfr" in
                  pose proof (load_post_tinv e me a o Hme) as H;
                  destruct (load_post e me a o) as [[? ?]|[? ?]]; cbn [lp_exec] in H; cbv beta iota
              end
          end
        | tstep Hme ].

Ltac ti_tac Hme :=
  cbn [exec_micro]; unfold lift_path, mbind; cbv beta iota;
  repeat tstep' Hme; tclose Hme.

(* every micro-operation keeps "thread b satisfies Q", provided that
   - the executing thread is not b, or Q only looks at the token;
   - MPark is executed by another thread;
   - m does not unpark b, or Q survives an unpark *)
Lemma exec_micro_tinv e me m :
  me <> b \/ self_ok -> (m = MPark -> me <> b) ->
  wake_ok \/ ~ In b (unpark_targets e m) ->
  tinv e -> tinv (res_exec (exec_micro e me m)).
Proof.
  intros Hme Hpk Hw H0.
  destruct m;
    try match goal with
        | |- tinv (res_exec (exec_micro _ _ MPark)) => idtac
        | |- tinv (res_exec (exec_micro _ _ (MCvNotify _ _))) => idtac
        | |- tinv (res_exec (exec_micro _ _ (MUnpark _))) => idtac
        | |- _ => clear Hpk Hw; ti_tac Hme
        end.
  - (* MPark *)
    cbn [exec_micro]. apply do_park_tinv; [apply Hpk; reflexivity|exact H0].
  - (* MCvNotify *)
    cbn [exec_micro unpark_targets] in *.
    destruct (nth_error (e_objects e) c) as [[| | | |s| | | |]|]; cbn [res_exec]; try exact H0.
    destruct all.
    + apply tinv_log_op_k. apply tinv_fold_unpark_k; [exact Hw|].
      match goal with |- tinv (upd_object ?E _ _) => apply (tinv_same_k E); [reflexivity|] end.
      exact H0.
    + destruct (cv_waiters s) as [|w rest]; cbn [res_exec].
      * apply tinv_log_op_k, H0.
      * apply tinv_log_op_k. apply tinv_threads_unpark_k.
        -- destruct Hw as [Hw|Hn]; [left; exact Hw|right]. intros ->. apply Hn. left. reflexivity.
        -- match goal with |- tinv (upd_object ?E _ _) => apply (tinv_same_k E); [reflexivity|] end.
           exact H0.
  - (* MUnpark *)
    cbn [exec_micro unpark_targets] in *.
    destruct (body_tid e b0) as [tid|]; cbn [res_exec]; [|exact H0].
    apply tinv_log_op_k. apply tinv_threads_unpark_k; [|exact H0].
    destruct Hw as [Hw|Hn]; [left; exact Hw|right]. intros ->. apply Hn. left. reflexivity.
Qed.

End TInv.

(* ================================================================== *)
(* 1. A.1: the park token persists                                     *)
(* ================================================================== *)

Definition has_token (t : thread) : Prop := t_token t = true.

Lemma t_token_set_unparked t : t_token t = true -> t_token (set_unparked t) = true.
Proof.
  intros H. unfold set_unparked. destruct (is_parked t); [exact H|].
  destruct (is_terminated t); [exact H|reflexivity].
Qed.

Lemma has_token_self_ok : self_ok has_token.
Proof. intros t t' E H. unfold has_token in *. congruence. Qed.

Lemma has_token_wake_ok : wake_ok has_token.
Proof. split; [apply has_token_self_ok|]. intros t H. apply t_token_set_unparked, H. Qed.

(* all micro-operations, also for the state carried by a panic: thread b keeps
   its token unless b itself executes MPark *)
Lemma exec_micro_token b e me m :
  (me = b -> m <> MPark) ->
  tinv b has_token e -> tinv b has_token (res_exec (exec_micro e me m)).
Proof.
  intros Hpk. apply exec_micro_tinv.
  - intros v t H. exact H.
  - intros t H _. exact H.
  - intros m0 t H _. exact H.
  - intros m0 t H _. exact H.
  - intros m0 c t H _. exact H.
  - right. apply has_token_self_ok.
  - intros -> ->. apply Hpk; reflexivity.
  - left. apply has_token_wake_ok.
Qed.

Theorem token_persists : forall b e me m e' t,
  get_thread e b = Some t -> t_token t = true ->
  (me = b -> m <> MPark) ->
  exec_micro e me m = MOk e' ->
  exists t', get_thread e' b = Some t' /\ t_token t' = true.
Proof.
  intros b e me m e' t Ht Htk Hpk Hx.
  assert (H0 : tinv b has_token e) by (exists t; split; assumption).
  pose proof (exec_micro_token b e me m Hpk H0) as H1. rewrite Hx in H1. exact H1.
Qed.

(* the same for the state carried by a panic *)
Theorem token_persists_fail : forall b e me m e' pn t,
  get_thread e b = Some t -> t_token t = true ->
  (me = b -> m <> MPark) ->
  exec_micro e me m = MFail e' pn ->
  exists t', get_thread e' b = Some t' /\ t_token t' = true.
Proof.
  intros b e me m e' pn t Ht Htk Hpk Hx.
  assert (H0 : tinv b has_token e) by (exists t; split; assumption).
  pose proof (exec_micro_token b e me m Hpk H0) as H1. rewrite Hx in H1. exact H1.
Qed.

(* sequences: any thread executes a micro-operation allowed by P (which may
   look at the state: the unpark targets depend on it); the runtime pops the
   continuation of a thread (Check.run does both in one go) *)
Inductive tsteps (P : exec -> nat -> micro -> Prop) : exec -> exec -> Prop :=
  | ts_refl e : tsteps P e e
  | ts_micro e me m e1 e2 :
      P e me m -> exec_micro e me m = MOk e1 -> tsteps P e1 e2 -> tsteps P e e2
  | ts_pop e me rest e2 :
      tsteps P (upd_thread e me (fun t => th_set_cont t rest)) e2 -> tsteps P e e2.

Lemma tsteps_trans P e1 e2 e3 : tsteps P e1 e2 -> tsteps P e2 e3 -> tsteps P e1 e3.
Proof.
  intros H12 H23. induction H12 as [e|e me m e1 e2 Hp Hx Hs IH|e me rest e2 Hs IH]; [exact H23| |].
  - eapply ts_micro; eauto.
  - eapply ts_pop; eauto.
Qed.

Lemma tsteps_weaken (P P' : exec -> nat -> micro -> Prop) e e' :
  (forall e me m, P e me m -> P' e me m) -> tsteps P e e' -> tsteps P' e e'.
Proof.
  intros HPQ H. induction H as [e|e me m e1 e2 Hp Hx Hs IH|e me rest e2 Hs IH].
  - apply ts_refl.
  - eapply ts_micro; eauto.
  - eapply ts_pop; eauto.
Qed.

(* the steps of the runtime (SyncMono.steps) are such sequences, with the
   condition read on the popped state *)
Lemma steps_tsteps e e' : steps e e' -> tsteps (fun _ _ _ => True) e e'.
Proof.
  intros H. induction H as [e|e me t m rest e1 e2 Ha Ht Hc Hx Hs IH]; [apply ts_refl|].
  eapply ts_pop, ts_micro; eauto.
Qed.

(* no step is b's own MPark *)
Definition not_own_park (b : nat) : exec -> nat -> micro -> Prop :=
  fun _ me m => ~ (me = b /\ m = MPark).

Theorem tsteps_token_persists : forall b e e' t,
  get_thread e b = Some t -> t_token t = true ->
  tsteps (not_own_park b) e e' ->
  exists t', get_thread e' b = Some t' /\ t_token t' = true.
Proof.
  intros b e e' t Ht Htk Hs.
  assert (H0 : tinv b has_token e) by (exists t; split; assumption).
  clear Ht Htk. induction Hs as [e|e me m e1 e2 Hp Hx Hs IH|e me rest e2 Hs IH].
  - exact H0.
  - apply IH. assert (Hpk : me = b -> m <> MPark) by (intros E1 E2; apply Hp; auto).
    pose proof (exec_micro_token b e me m Hpk H0) as H1. rewrite Hx in H1. exact H1.
  - apply IH. apply tinv_upd_thread_k; [|exact H0]. right. intros t0 Hq. exact Hq.
Qed.

(* ================================================================== *)
(* 2. A.2: the exact effect of MUnpark                                 *)
(* ================================================================== *)

Lemma set_unparked_cases t :
  (is_parked t = true /\ set_unparked t = set_runnable t) \/
  (is_parked t = false /\ is_terminated t = true /\ set_unparked t = t) \/
  (is_parked t = false /\ is_terminated t = false /\ set_unparked t = th_set_token t true).
Proof.
  unfold set_unparked. destruct (is_parked t); [left; auto|right].
  destruct (is_terminated t); [left; auto|right; auto].
Qed.

Lemma parked_not_terminated t : is_parked t = true -> is_terminated t = false.
Proof.
  unfold is_parked, is_blocked, is_terminated. destruct (t_state t); cbn; congruence.
Qed.

(* what Set::unpark(b) executed by a does to thread b *)
Definition unparked_by (e : exec) (a b : nat) : thread -> thread :=
  if Nat.eqb b a then set_unparked else fun t => thread_unpark t (caus_of e a).

Lemma threads_unpark_exact e a b : threads_unpark e a b = upd_thread e b (unparked_by e a b).
Proof.
  unfold threads_unpark, unparked_by. destruct (Nat.eqb b a) eqn:E; [|reflexivity].
  apply Nat.eqb_eq in E. subst b. reflexivity.
Qed.

Lemma exec_micro_unpark e a bd b :
  body_tid e bd = Some b ->
  exec_micro e a (MUnpark bd) = MOk (log_op (threads_unpark e a b) a RUnit).
Proof. intros Hb. cbn [exec_micro]. rewrite Hb. reflexivity. Qed.

Lemma get_thread_log_op e me r j : get_thread (log_op e me r) j = get_thread e j.
Proof. unfold get_thread. rewrite e_threads_log_op. reflexivity. Qed.

(* the fields of a thread other than state, clock and token *)
Definition same_rest (t t' : thread) : Prop :=
  t_op t' = t_op t /\ t_rel t' = t_rel t /\ t_dpor t' = t_dpor t /\
  t_last_yield t' = t_last_yield t /\ t_yield_count t' = t_yield_count t /\
  t_cont t' = t_cont t /\ t_body t' = t_body t /\ t_pc t' = t_pc t /\
  t_guards t' = t_guards t /\ t_tls t' = t_tls t.

(* the components of the state other than the thread table and the log *)
Definition same_frame (e e' : exec) : Prop :=
  e_objects e' = e_objects e /\ e_path e' = e_path e /\ e_active e' = e_active e /\
  e_seqcst e' = e_seqcst e /\ e_max_threads e' = e_max_threads e /\ e_h e' = e_h e /\
  e_spawned e' = e_spawned e /\ e_joined e' = e_joined e /\ e_bodies e' = e_bodies e /\
  e_lazy e' = e_lazy e /\ length (e_threads e') = length (e_threads e).

Lemma same_frame_log_op e me r : same_frame e (log_op e me r).
Proof. unfold log_op. destruct (get_thread e me); repeat split. Qed.

(* what an unpark does to the state, the token and the other fields of its target *)
Definition unpark_result (t t' : thread) : Prop :=
  (if is_parked t then t_state t' = Runnable /\ t_token t' = t_token t
   else if is_terminated t then t_state t' = Terminated /\ t_token t' = t_token t
   else t_state t' = t_state t /\ t_token t' = true) /\
  same_rest t t'.

Lemma unparked_by_result e a b t : unpark_result t (unparked_by e a b t).
Proof.
  unfold unpark_result, same_rest, unparked_by, thread_unpark, set_unparked, is_parked, is_blocked,
    is_terminated.
  destruct t as [st op ca re dp ly yc co bo pc gu tl tk].
  cbn [t_state t_op t_token th_set_caus].
  destruct (Nat.eqb b a); destruct st; destruct op; cbn; repeat split.
Qed.

(* Set::unpark(b) executed by thread a, exactly *)
Lemma threads_unpark_effect e a b t :
  get_thread e b = Some t ->
  exists t',
    get_thread (threads_unpark e a b) b = Some t' /\
    unpark_result t t' /\
    t_caus t' = (if Nat.eqb b a then t_caus t else vv_join (t_caus t) (caus_of e a)) /\
    vle (caus_of e a) (caus_of (threads_unpark e a b) b) /\
    (forall j, j <> b -> get_thread (threads_unpark e a b) j = get_thread e j).
Proof.
  intros Ht. rewrite threads_unpark_exact. exists (unparked_by e a b t).
  assert (Hg : get_thread (upd_thread e b (unparked_by e a b)) b = Some (unparked_by e a b t))
    by (rewrite get_thread_upd_thread_same, Ht; reflexivity).
  assert (Hc : t_caus (unparked_by e a b t) =
               (if Nat.eqb b a then t_caus t else vv_join (t_caus t) (caus_of e a))).
  { unfold unparked_by. destruct (Nat.eqb b a);
      [apply t_caus_set_unparked|apply t_caus_thread_unpark]. }
  split; [exact Hg|]. split; [apply unparked_by_result|]. split; [exact Hc|]. split.
  - unfold caus_of at 2. rewrite Hg, Hc. destruct (Nat.eqb b a) eqn:E.
    + apply Nat.eqb_eq in E. subst b. unfold caus_of. rewrite Ht. apply vle_refl.
    + apply vle_join_r.
  - intros j Hj. apply get_thread_upd_thread_other. congruence.
Qed.

Lemma same_frame_threads_unpark e a b : same_frame e (threads_unpark e a b).
Proof.
  rewrite threads_unpark_exact. unfold same_frame. repeat split. apply length_threads_upd_thread.
Qed.

Lemma same_frame_trans e1 e2 e3 : same_frame e1 e2 -> same_frame e2 e3 -> same_frame e1 e3.
Proof.
  unfold same_frame.
  intros (A1 & A2 & A3 & A4 & A5 & A6 & A7 & A8 & A9 & A10 & A11)
         (B1 & B2 & B3 & B4 & B5 & B6 & B7 & B8 & B9 & B10 & B11).
  repeat split; congruence.
Qed.

Theorem unpark_effect : forall e a bd b t e',
  body_tid e bd = Some b -> get_thread e b = Some t ->
  exec_micro e a (MUnpark bd) = MOk e' ->
  exists t',
    get_thread e' b = Some t' /\
    (if is_parked t then t_state t' = Runnable /\ t_token t' = t_token t
     else if is_terminated t then t_state t' = Terminated /\ t_token t' = t_token t
     else t_state t' = t_state t /\ t_token t' = true) /\
    t_caus t' = (if Nat.eqb b a then t_caus t else vv_join (t_caus t) (caus_of e a)) /\
    vle (caus_of e a) (caus_of e' b) /\
    same_rest t t' /\
    (forall j, j <> b -> get_thread e' j = get_thread e j) /\
    same_frame e e'.
Proof.
  intros e a bd b t e' Hb Ht Hx. rewrite (exec_micro_unpark e a bd b Hb) in Hx.
  injection Hx as <-.
  destruct (threads_unpark_effect e a b t Ht) as (t' & Hg & [Hr1 Hr2] & Hc & Hv & Ho).
  exists t'. rewrite get_thread_log_op. split; [exact Hg|]. split; [exact Hr1|].
  split; [exact Hc|]. split; [rewrite caus_of_log_op; exact Hv|]. split; [exact Hr2|]. split.
  - intros j Hj. rewrite get_thread_log_op. apply Ho, Hj.
  - eapply same_frame_trans; [apply same_frame_threads_unpark|apply same_frame_log_op].
Qed.

(* the three cases, one by one *)
Corollary unpark_wakes_parked : forall e a bd b t e',
  body_tid e bd = Some b -> get_thread e b = Some t -> is_parked t = true ->
  exec_micro e a (MUnpark bd) = MOk e' ->
  exists t', get_thread e' b = Some t' /\ t_state t' = Runnable /\ t_token t' = t_token t /\
             vle (caus_of e a) (caus_of e' b).
Proof.
  intros e a bd b t e' Hb Ht Hp Hx.
  destruct (unpark_effect e a bd b t e' Hb Ht Hx) as (t' & Hg & Hc & _ & Hv & _).
  rewrite Hp in Hc. exists t'. tauto.
Qed.

Corollary unpark_stores_token : forall e a bd b t e',
  body_tid e bd = Some b -> get_thread e b = Some t ->
  is_parked t = false -> is_terminated t = false ->
  exec_micro e a (MUnpark bd) = MOk e' ->
  exists t', get_thread e' b = Some t' /\ t_state t' = t_state t /\ t_token t' = true /\
             t_op t' = t_op t /\ vle (caus_of e a) (caus_of e' b).
Proof.
  intros e a bd b t e' Hb Ht Hp Htm Hx.
  destruct (unpark_effect e a bd b t e' Hb Ht Hx) as (t' & Hg & Hc & _ & Hv & Hr & _).
  rewrite Hp, Htm in Hc. exists t'. destruct Hr as (Hop & _). tauto.
Qed.

Corollary unpark_terminated_untouched : forall e a bd b t e',
  body_tid e bd = Some b -> get_thread e b = Some t -> is_terminated t = true ->
  exec_micro e a (MUnpark bd) = MOk e' ->
  exists t', get_thread e' b = Some t' /\ t_state t' = Terminated /\ t_token t' = t_token t /\
             same_rest t t'.
Proof.
  intros e a bd b t e' Hb Ht Htm Hx.
  destruct (unpark_effect e a bd b t e' Hb Ht Hx) as (t' & Hg & Hc & _ & _ & Hr & _).
  assert (Hp : is_parked t = false).
  { destruct (is_parked t) eqn:E; [|reflexivity]. apply parked_not_terminated in E. congruence. }
  rewrite Hp, Htm in Hc. exists t'. tauto.
Qed.

(* ================================================================== *)
(* 3. A.3: the exact effect of MPark                                   *)
(* ================================================================== *)

(* with a token: the token is consumed, nothing else happens (no scheduling) *)
Theorem park_effect_token : forall e me t,
  get_thread e me = Some t -> t_token t = true ->
  exec_micro e me MPark = MOk (upd_thread e me (fun t => th_set_token t false)).
Proof. intros e me t Ht Htk. cbn [exec_micro]. unfold do_park. rewrite Ht, Htk. reflexivity. Qed.

(* without a token: the thread becomes Blocked with no pending operation, and
   the scheduler is called *)
Theorem park_effect_block : forall e me t,
  get_thread e me = Some t -> t_token t = false ->
  exec_micro e me MPark =
  fst (schedule (upd_thread e me (fun t => th_set_op (set_blocked t) None))).
Proof. intros e me t Ht Htk. cbn [exec_micro]. unfold do_park. rewrite Ht, Htk. reflexivity. Qed.

(* "parked": Blocked, no pending operation -- and no token *)
Definition parkedQ (t : thread) : Prop := is_parked t = true /\ t_token t = false.
Definition parked (b : nat) (e : exec) : Prop := tinv b parkedQ e.

Lemma parked_op_none t : is_parked t = true -> t_op t = None.
Proof. unfold is_parked. destruct (t_op t); [rewrite andb_false_r; discriminate|reflexivity]. Qed.

Lemma parked_not_pending m t : is_parked t = true -> pending_on m t = true -> False.
Proof. intros Hp. unfold pending_on. rewrite (parked_op_none t Hp). discriminate. Qed.

Lemma parked_not_yield t : is_parked t = true -> is_yield t = true -> False.
Proof. unfold is_parked, is_blocked, is_yield. destruct (t_state t); cbn; discriminate. Qed.

Lemma schedule_parked b e : parked b e -> parked b (res_exec (fst (schedule e))).
Proof.
  apply schedule_tinv.
  - intros v t H. exact H.
  - intros t [H _] Hy. destruct (parked_not_yield t H Hy).
Qed.

(* the blocking park really blocks: the thread is parked (and, when the path is
   traversed, another thread is resumed) *)
Theorem park_blocks : forall e me t e',
  get_thread e me = Some t -> t_token t = false ->
  exec_micro e me MPark = MOk e' ->
  parked me e' /\ (is_traversed (e_path e) = true -> e_active e' <> Some me).
Proof.
  intros e me t e' Ht Htk Hx. rewrite (park_effect_block e me t Ht Htk) in Hx.
  set (e0 := upd_thread e me (fun t => th_set_op (set_blocked t) None)) in *.
  assert (Ht0 : nth_error (e_threads e0) me = Some (th_set_op (set_blocked t) None)).
  { change (get_thread e0 me = Some (th_set_op (set_blocked t) None)).
    unfold e0. rewrite get_thread_upd_thread_same, Ht. reflexivity. }
  split.
  - assert (H0 : parked me e0).
    { exists (th_set_op (set_blocked t) None). split; [exact Ht0|]. split; [reflexivity|exact Htk]. }
    pose proof (schedule_parked me e0 H0) as H1. rewrite Hx in H1. exact H1.
  - intros Htr Ha.
    exact (blocked_not_scheduled e0 e' me _ me Hx Htr Ht0 eq_refl Ha eq_refl).
Qed.

(* ================================================================== *)
(* 4. A.4: no lost unpark; a parked thread is woken by an unpark only  *)
(* ================================================================== *)

Theorem no_lost_unpark : forall e a bd b t e1,
  body_tid e bd = Some b -> get_thread e b = Some t ->
  exec_micro e a (MUnpark bd) = MOk e1 ->
  (* b was parked: it is Runnable now *)
  (is_parked t = true /\
   exists t1, get_thread e1 b = Some t1 /\ t_state t1 = Runnable /\ t_token t1 = t_token t) \/
  (* b had exited *)
  is_terminated t = true \/
  (* otherwise the unpark is stored: whatever happens next, as long as b does not
     park, the token is there and b's next park consumes it without blocking *)
  (is_parked t = false /\ is_terminated t = false /\
   forall e2, tsteps (not_own_park b) e1 e2 ->
     exists t2, get_thread e2 b = Some t2 /\ t_token t2 = true /\
       exec_micro e2 b MPark = MOk (upd_thread e2 b (fun t => th_set_token t false))).
Proof.
  intros e a bd b t e1 Hb Ht Hx.
  destruct (is_parked t) eqn:Hp.
  - left. split; [reflexivity|].
    destruct (unpark_wakes_parked e a bd b t e1 Hb Ht Hp Hx) as (t1 & H1 & H2 & H3 & _). eauto.
  - destruct (is_terminated t) eqn:Htm; [right; left; reflexivity|]. right; right.
    split; [reflexivity|]. split; [reflexivity|]. intros e2 Hs.
    destruct (unpark_stores_token e a bd b t e1 Hb Ht Hp Htm Hx) as (t1 & H1 & _ & H3 & _).
    destruct (tsteps_token_persists b e1 e2 t1 H1 H3 Hs) as (t2 & Hg2 & Htk2).
    exists t2. split; [exact Hg2|]. split; [exact Htk2|]. apply (park_effect_token e2 b t2 Hg2 Htk2).
Qed.

(* the safety half, all micro-operations: a parked thread stays parked (and
   without a token) under every micro-operation of another thread that does
   not unpark it: not MUnpark of b, not a Condvar notify that pops b *)
Lemma exec_micro_parked b e me m :
  me <> b -> ~ In b (unpark_targets e m) ->
  parked b e -> parked b (res_exec (exec_micro e me m)).
Proof.
  intros Hmb Hw. apply exec_micro_tinv.
  - intros v t H. exact H.
  - intros t [H _] Hy. destruct (parked_not_yield t H Hy).
  - intros m0 t [H _] Hp. destruct (parked_not_pending m0 t H Hp).
  - intros m0 t [H _] Hp. destruct (parked_not_pending m0 t H Hp).
  - intros m0 c t [H _] Hp. destruct (parked_not_pending m0 t H Hp).
  - left. exact Hmb.
  - intros _. exact Hmb.
  - right. exact Hw.
Qed.

Theorem parked_stays_parked : forall b e me m e' t,
  get_thread e b = Some t -> is_parked t = true -> t_token t = false ->
  me <> b -> ~ In b (unpark_targets e m) ->
  exec_micro e me m = MOk e' ->
  exists t', get_thread e' b = Some t' /\ is_parked t' = true /\ t_token t' = false.
Proof.
  intros b e me m e' t Ht Hp Htk Hmb Hw Hx.
  assert (H0 : parked b e) by (exists t; split; [exact Ht|split; assumption]).
  pose proof (exec_micro_parked b e me m Hmb Hw H0) as H1. rewrite Hx in H1.
  destruct H1 as (t' & Ht' & Hp' & Htk'). eauto.
Qed.

(* what the unpark targets are *)
Lemma unpark_targets_spec e m b :
  In b (unpark_targets e m) <->
  (exists bd, m = MUnpark bd /\ body_tid e bd = Some b) \/
  (exists c s, m = MCvNotify c true /\ nth_error (e_objects e) c = Some (OCondvar s) /\
               In b (cv_waiters s)) \/
  (exists c s rest, m = MCvNotify c false /\ nth_error (e_objects e) c = Some (OCondvar s) /\
               cv_waiters s = b :: rest).
Proof.
  split.
  - intros H. destruct m; cbn [unpark_targets] in H; try destruct H.
    + destruct (nth_error (e_objects e) c) as [[| | | |s| | | |]|] eqn:Hc; try destruct H.
      destruct all.
      * right; left. eauto.
      * right; right. destruct (cv_waiters s) as [|w rest] eqn:Hq; [destruct H|].
        destruct H as [->|[]]. eauto 6.
    + left. destruct (body_tid e b0) as [tid|] eqn:Hb; [|destruct H].
      destruct H as [->|[]]. eauto.
  - intros [(bd & -> & Hb)|[(c & s & -> & Hc & Hi)|(c & s & rest & -> & Hc & Hq)]];
      cbn [unpark_targets].
    + rewrite Hb. left. reflexivity.
    + rewrite Hc. exact Hi.
    + rewrite Hc, Hq. left. reflexivity.
Qed.

(* the converse reading: if a micro-operation of another thread ends the
   parked state of b, it was an unpark of b *)
Theorem unpark_needed : forall b e me m e',
  parked b e -> me <> b -> exec_micro e me m = MOk e' -> ~ parked b e' ->
  In b (unpark_targets e m).
Proof.
  intros b e me m e' H0 Hmb Hx Hn.
  destruct (in_dec Nat.eq_dec b (unpark_targets e m)) as [Hi|Hi]; [exact Hi|].
  exfalso. apply Hn. pose proof (exec_micro_parked b e me m Hmb Hi H0) as H1.
  rewrite Hx in H1. exact H1.
Qed.

(* sequences: other threads execute anything that does not unpark b *)
Definition no_unpark_of (b : nat) : exec -> nat -> micro -> Prop :=
  fun e me m => me <> b /\ ~ In b (unpark_targets e m).

Theorem parked_until_unpark : forall b e e',
  parked b e -> tsteps (no_unpark_of b) e e' -> parked b e'.
Proof.
  intros b e e' H0 Hs. induction Hs as [e|e me m e1 e2 [Hmb Hw] Hx Hs IH|e me rest e2 Hs IH].
  - exact H0.
  - apply IH. pose proof (exec_micro_parked b e me m Hmb Hw H0) as H1. rewrite Hx in H1. exact H1.
  - apply IH. apply tinv_upd_thread_k; [|exact H0]. right. intros t Hq. exact Hq.
Qed.

(* the whole scenario: b parks without a token; it stays parked while nobody
   unparks it; an unpark by a makes it Runnable, token still clear, and b has
   acquired a's clock *)
Theorem park_until_unpark : forall e b t e1 e2 a bd e3,
  get_thread e b = Some t -> t_token t = false ->
  exec_micro e b MPark = MOk e1 ->
  tsteps (no_unpark_of b) e1 e2 ->
  body_tid e2 bd = Some b -> exec_micro e2 a (MUnpark bd) = MOk e3 ->
  parked b e2 /\
  exists t3, get_thread e3 b = Some t3 /\ t_state t3 = Runnable /\ t_token t3 = false /\
             vle (caus_of e2 a) (caus_of e3 b).
Proof.
  intros e b t e1 e2 a bd e3 Ht Htk Hpk Hs Hb Hx.
  destruct (park_blocks e b t e1 Ht Htk Hpk) as [H1 _].
  pose proof (parked_until_unpark b e1 e2 H1 Hs) as H2. split; [exact H2|].
  destruct H2 as (t2 & Ht2 & Hp2 & Htk2).
  destruct (unpark_wakes_parked e2 a bd b t2 e3 Hb Ht2 Hp2 Hx) as (t3 & Hg3 & Hs3 & Htk3 & Hv).
  exists t3. rewrite Htk3, Htk2. auto.
Qed.

(* ================================================================== *)
(* 5. Concrete runs (non-vacuity)                                      *)
(* ================================================================== *)

Definition cfgP : config := mkConfig 5 1000 None None None false.

(* main: spawn t1; lock; unlock; park; join      t1: unpark(main) *)
Definition p_park : prog := mkProg cfgP [DMutex]
  [[ISpawn 1; ILock 0; IUnlock 0; IPark; IJoin 1]; [IUnpark 0]].

Definition park_state (n : nat) : exec := fst (run n (init_exec p_park (initial_path cfgP))).

(* (state, pending operation, token) of every thread *)
Definition tview (e : exec) : list (tstate * option operation * bool) :=
  map (fun t => (t_state t, t_op t, t_token t)) (e_threads e).

(* first schedule: main parks first (it blocks: no token), t1's unpark wakes it *)
Example park_then_unpark_run :
  snd (run 1000 (init_exec p_park (initial_path cfgP))) = IterDone /\
  tview (park_state 9) = [(Blocked, None, false); (Runnable, None, false)] /\
  e_active (park_state 9) = Some 1 /\
  tview (park_state 11) = [(Runnable, None, false); (Runnable, None, false)].
Proof. vm_compute. repeat split; reflexivity. Qed.

(* the other order: t1 unparks main right after the spawn; the token survives
   main's lock / unlock (a scheduling point, a lock word update, a release with
   its wake-ups) and main's park consumes it without blocking *)
Definition tok_state : exec := res_exec (exec_micro (park_state 2) 1 (MUnpark 0)).

Example unpark_then_park_run :
  tview tok_state = [(Runnable, None, true); (Runnable, None, false)] /\
  (* up to main's MPark: Begin, Branch, LockPost, Begin, Unlock, Begin *)
  tview (fst (run 6 tok_state)) =
    [(Runnable, Some (mkOp 0 AOpaque), true); (Runnable, None, false)] /\
  (* MPark: token consumed, main still Runnable and still the active thread *)
  tview (fst (run 7 tok_state)) =
    [(Runnable, Some (mkOp 0 AOpaque), false); (Runnable, None, false)] /\
  e_active (fst (run 7 tok_state)) = Some 0.
Proof. vm_compute. repeat split; reflexivity. Qed.

Print Assumptions exec_micro_tinv.
Print Assumptions exec_micro_token.
Print Assumptions token_persists.
Print Assumptions token_persists_fail.
Print Assumptions tsteps_token_persists.
Print Assumptions threads_unpark_effect.
Print Assumptions unpark_effect.
Print Assumptions unpark_wakes_parked.
Print Assumptions unpark_stores_token.
Print Assumptions unpark_terminated_untouched.
Print Assumptions park_effect_token.
Print Assumptions park_effect_block.
Print Assumptions park_blocks.
Print Assumptions no_lost_unpark.
Print Assumptions exec_micro_parked.
Print Assumptions parked_stays_parked.
Print Assumptions unpark_targets_spec.
Print Assumptions unpark_needed.
Print Assumptions parked_until_unpark.
Print Assumptions park_until_unpark.
Print Assumptions park_then_unpark_run.
Print Assumptions unpark_then_park_run.

(* DEVIATIONS from the requested statements

   P1  MUnpark carries a BODY index bd; the thread unparked is
       body_tid e bd = Some b.  All statements about MUnpark have that
       hypothesis.
   P2  token_persists (A.1): as requested, for EVERY micro-operation of EVERY
       thread (b itself included) other than b's own MPark; it needs no side
       condition (no track_ok: only the thread table matters).  It is proved
       for the state carried by a panic as well (token_persists_fail), and
       over sequences (tsteps_token_persists; tsteps is larger than
       SyncMono.steps, see steps_tsteps).
   P3  unpark_effect (A.2): "Terminated threads are untouched" is true for the
       state, the token and every other field EXCEPT the clock: Thread::unpark
       joins the unparker's clock into the target before looking at its state,
       so a terminated (or any) target's t_caus becomes
       vv_join (t_caus t) (caus_of e a) when a <> b.  When a thread unparks
       ITSELF (a = b) no clock is joined (Set::unpark special-cases it); the
       requested vle (caus_of e a) (caus_of e' b) then holds trivially.  For a
       parked target the theorem says "the token is unchanged"; it is false
       whenever the thread got parked through MPark (park_blocks establishes
       [parked] = is_parked /\ token clear, exec_micro_parked keeps it), see
       park_until_unpark.
   P4  parked_stays_parked (A.4, safety half): a parked thread is made Runnable
       by MUnpark of it -- AND by a Condvar notify that pops it from a waiter
       queue (MCvNotify c false with b at the front, MCvNotify c true with b
       anywhere in the queue): Condvar::wait parks through the same rt::park
       and Condvar::notify_* wakes through the same Set::unpark.  The exact
       exclusion is [~ In b (unpark_targets e m)] (unpark_targets_spec spells
       it out); unpark_needed is the converse reading.  Nothing else wakes a
       parked thread: releases of locks, sends, Notify posts and the exit
       notification only touch threads with a pending operation on their
       object, the scheduler only resets Yielded threads (the D5 / D11 sites).
       Hypothesis me <> b: the parked thread itself executes nothing
       (park_blocks: it is Blocked and, on a traversed path, not scheduled).
   P5  no_lost_unpark: the disjunction is  parked (now Runnable, token as
       before)  \/  terminated  \/  (running / yielded / blocked on an object:
       the token is set, persists over every sequence of steps without b's own
       MPark, and b's next MPark is exactly "clear the token": no blocking, no
       scheduling call). *)
