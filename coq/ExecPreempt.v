(* C15 for the execution model L, independent reading.

   PathPreempt.v defines the independent count of preemptions
   [switches (branches p)], the linking invariant [pre_inv (branches p)] and
   proves that every Path API function preserves [pre_inv]; for [branch_thread]
   this needs a hypothesis on the seed ([seed_switch_ok]): a property of the
   caller, Execution::schedule.  This file discharges that hypothesis for the
   seeds that [Exec.schedule] really passes, and concludes

       switches (branches p) <= preemption_bound

   for every path explored by the model L.

   Route (the one of ExecFacts.v / ExecFacts2.v):
     [pinv a p]   invariant linking the active thread [a] with the stack [p]:
                    pos p <= length (branches p),
                    a = prev_active (firstn (pos p) (branches p)),
                    pre_inv (branches p);
     [einv e]     := pinv (e_active e) (e_path e);
     one lemma per Path API function (<f>_pinv), [dpor_loop_pinv];
     [sched_seed_switch_ok], [sched_seed_ok]: the seed of schedule;
     [schedule_einv]; [exec_micro_einv] (one tactic over all micro-operations,
     [micro_tac3]); [run_einv]; [iteration_einv].

   Main theorems: L_iteration_pre_inv, L_iteration_switches_le_bound,
   L_explore_switches_le_bound, L_switches_nonvacuous.

   Deviations from the requested statements:
     - [L_iteration_pre_inv] and [L_iteration_switches_le_bound] have the
       hypothesis [pos pa = 0] instead of [wf_path pa] (wf_path is not needed).
       [pos pa = 0] holds for [initial_path c] ([initial_path_pos]) and after
       every [step] ([step_pos]).  It is genuinely needed: an iteration
       started in the middle of a stored stack does not know which thread the
       stack believes to be running; [L_iteration_pre_inv_needs_pos] is a
       concrete counterexample (pre_inv holds before, fails after).
       [L_iteration_pre_inv_gen] is the general form (hypothesis
       [pinv (Some 0) pa]). *)
Require Import LV.Base LV.VV LV.Path LV.PathSpec LV.PathApi LV.PathPreempt LV.Prog LV.Objects
               LV.Exec LV.Atomic LV.Ops LV.Check LV.ExecFacts LV.ExecFacts2.
From Coq Require Import Lia.

(* ------------------------------------------------------------------ *)
(* 1. [prev_active] of a prefix of the stack                           *)
(* ------------------------------------------------------------------ *)

Lemma sched_entries_app b c : sched_entries (b ++ c) = sched_entries b ++ sched_entries c.
Proof.
  induction b as [|e b IH]; cbn [app sched_entries]; [reflexivity|].
  destruct e as [s|l|sp]; [cbn [app]; f_equal; exact IH|exact IH..].
Qed.

Lemma last_opt_snoc l s : last_opt (l ++ [s]) = Some s.
Proof.
  induction l as [|x l IH]; cbn [app last_opt]; [reflexivity|]. rewrite IH. reflexivity.
Qed.

Lemma prev_active_snoc_sched b s : prev_active (b ++ [ESched s]) = active_thread_index s.
Proof.
  unfold prev_active, last_sched. rewrite sched_entries_app. cbn [sched_entries].
  rewrite last_opt_snoc. reflexivity.
Qed.

Lemma prev_active_snoc_other b e : is_sched e = false -> prev_active (b ++ [e]) = prev_active b.
Proof.
  intros He. unfold prev_active, last_sched. rewrite sched_entries_app.
  destruct e as [s|l|sp]; [discriminate|cbn [sched_entries]; rewrite app_nil_r; reflexivity..].
Qed.

Lemma firstn_S_nth (A : Type) (l : list A) : forall k x,
  nth_error l k = Some x -> firstn (S k) l = firstn k l ++ [x].
Proof.
  induction l as [|h t IH]; intros [|k] x Hn; cbn [nth_error] in Hn; try discriminate.
  - injection Hn as ->. reflexivity.
  - cbn [firstn app]. f_equal. apply IH. exact Hn.
Qed.

Lemma firstn_app_le (A : Type) (b c : list A) k :
  k <= length b -> firstn k (b ++ c) = firstn k b.
Proof.
  intros Hk. rewrite firstn_app. replace (k - length b) with 0 by lia.
  cbn [firstn]. apply app_nil_r.
Qed.

Lemma Forall2_firstn (A B : Type) (R : A -> B -> Prop) l l' :
  Forall2 R l l' -> forall k, Forall2 R (firstn k l) (firstn k l').
Proof.
  induction 1 as [|x y l l' Hxy Hl IH]; intros [|k]; cbn [firstn]; constructor; auto.
Qed.

(* backtrack marks do not change which thread is Active *)
Lemma last_active_ext b b' :
  Forall2 ext b b' ->
  option_map active_thread_index (last_opt (sched_entries b')) =
  option_map active_thread_index (last_opt (sched_entries b)).
Proof.
  induction 1 as [|e e' l l' He Hl IH]; [reflexivity|].
  destruct (ext_inv _ _ He) as [->|(s & th & -> & -> & Hex & Hth)].
  - destruct e as [s|ld|sp]; cbn [sched_entries last_opt]; [|exact IH..].
    destruct (last_opt (sched_entries l')), (last_opt (sched_entries l));
      cbn [option_map] in *; congruence.
  - cbn [sched_entries last_opt].
    destruct (last_opt (sched_entries l')), (last_opt (sched_entries l));
      cbn [option_map] in *; try congruence.
    unfold active_thread_index. cbn [s_threads].
    rewrite (ext_t_active_index _ _ Hth). reflexivity.
Qed.

Lemma prev_active_ext b b' : Forall2 ext b b' -> prev_active b' = prev_active b.
Proof.
  intros H. pose proof (last_active_ext _ _ H) as Hl. unfold prev_active, last_sched.
  destruct (last_opt (sched_entries b')), (last_opt (sched_entries b));
    cbn [option_map] in Hl; congruence.
Qed.

(* ------------------------------------------------------------------ *)
(* 2. the invariant and the Path API                                   *)
(* ------------------------------------------------------------------ *)

(* [a] is the thread the stack believes to be running at position [pos p] *)
Definition ainv (a : option nat) (p : path) : Prop :=
  pos p <= length (branches p) /\ a = prev_active (firstn (pos p) (branches p)).

Definition pinv (a : option nat) (p : path) : Prop := ainv a p /\ pre_inv (branches p).

Lemma pinv_same a p p' :
  branches p' = branches p -> pos p' = pos p -> pinv a p -> pinv a p'.
Proof. unfold pinv, ainv. intros -> ->. auto. Qed.

Lemma explore_state_pinv a p p' : explore_state p = POk p' -> pinv a p -> pinv a p'.
Proof.
  unfold explore_state. intros H.
  destruct (skipping p); [injection H as <-; auto|].
  destruct (exploring p); [discriminate|]. injection H as <-. apply pinv_same; reflexivity.
Qed.

Lemma critical_pinv a p p' : critical p = POk p' -> pinv a p -> pinv a p'.
Proof.
  unfold critical. intros H.
  destruct (skipping p); [injection H as <-; auto|].
  destruct (exploring p); [|discriminate]. injection H as <-. apply pinv_same; reflexivity.
Qed.

Lemma skip_branch_pinv a p : pinv a p -> pinv a (skip_branch p).
Proof. apply pinv_same; reflexivity. Qed.

(* pushing an entry that is not a Schedule entry *)
Lemma push_other_pinv a p e :
  is_sched e = false -> pinv a p -> pinv a (set_branches p (branches p ++ [e])).
Proof.
  intros He [[Hpos Ha] Hpre]. unfold pinv, ainv. cbn [set_branches pos branches].
  split; [split|].
  - rewrite app_length. lia.
  - rewrite firstn_app_le by exact Hpos. exact Ha.
  - apply pre_inv_push_other; assumption.
Qed.

(* stepping over an entry that is not a Schedule entry *)
Lemma advance_other_pinv a p e :
  nth_error (branches p) (pos p) = Some e -> is_sched e = false ->
  pinv a p -> pinv a (set_pos p (S (pos p))).
Proof.
  intros Hn He [[Hpos Ha] Hpre]. unfold pinv, ainv. cbn [set_pos pos branches].
  split; [split|exact Hpre].
  - apply Nat.le_succ_l. apply nth_error_Some. congruence.
  - rewrite (firstn_S_nth _ _ _ _ Hn), prev_active_snoc_other by exact He. exact Ha.
Qed.

(* stepping over a Schedule entry: its Active thread runs *)
Lemma advance_sched_ainv p s :
  nth_error (branches p) (pos p) = Some (ESched s) ->
  ainv (active_thread_index s) (set_pos p (S (pos p))).
Proof.
  intros Hn. unfold ainv. cbn [set_pos pos branches]. split.
  - apply Nat.le_succ_l. apply nth_error_Some. congruence.
  - rewrite (firstn_S_nth _ _ _ _ Hn), prev_active_snoc_sched. reflexivity.
Qed.

Lemma push_load_pinv a p seed p' : push_load p seed = POk p' -> pinv a p -> pinv a p'.
Proof.
  intros H. destruct (push_load_cases _ _ _ H) as (_ & _ & ->).
  apply push_other_pinv. reflexivity.
Qed.

Lemma branch_load_entry p p' v :
  branch_load p = POk (p', v) ->
  p' = set_pos p (S (pos p)) /\ exists l, nth_error (branches p) (pos p) = Some (ELoad l).
Proof.
  intros H. split; [exact (branch_load_cases _ _ _ H)|].
  unfold branch_load in H. destruct (is_traversed p); [discriminate|].
  destruct (nth_error (branches p) (pos p)) as [[s|l|s]|]; try discriminate. eauto.
Qed.

Lemma branch_load_pinv a p p' v : branch_load p = POk (p', v) -> pinv a p -> pinv a p'.
Proof.
  intros H. destruct (branch_load_entry _ _ _ H) as (-> & l & Hn).
  eapply advance_other_pinv; [exact Hn|reflexivity].
Qed.

Lemma branch_spurious_pinv a p p' b :
  branch_spurious p = POk (p', b) -> pinv a p -> pinv a p'.
Proof.
  intros H Hinv.
  destruct (branch_spurious_cases _ _ _ H) as [(Htr & ->)|(Htr & _ & ->)].
  - unfold branch_spurious in H. rewrite Htr in H. cbv iota in H.
    destruct (nth_error (branches p) (pos p)) as [[s|l|s]|] eqn:Hn; try discriminate.
    eapply advance_other_pinv; [exact Hn|reflexivity|exact Hinv].
  - set (E := ESpur (mkSpur false (exploring p))).
    pose proof (push_other_pinv a p E eq_refl Hinv) as Hq.
    set (Q := set_branches p (branches p ++ [E])) in *.
    change (set_pos Q (S (pos p))) with (set_pos Q (S (pos Q))).
    eapply advance_other_pinv with (e := E); [|reflexivity|exact Hq].
    subst Q. cbn [set_branches branches pos].
    unfold is_traversed in Htr. apply Nat.eqb_eq in Htr. rewrite Htr.
    rewrite nth_error_app2, Nat.sub_diag by apply Nat.le_refl. reflexivity.
Qed.

Lemma backtrack_pinv a p point tid p' : backtrack p point tid = POk p' -> pinv a p -> pinv a p'.
Proof.
  intros H [[Hpos Ha] Hpre].
  destruct (backtrack_marks _ _ _ _ H) as (_ & _ & _ & Hp & _ & _ & Hbr).
  unfold pinv, ainv. rewrite Hp. split; [split|].
  - rewrite <- (Forall2_len _ _ _ _ _ Hbr). exact Hpos.
  - rewrite (prev_active_ext _ _ (Forall2_firstn _ _ _ _ _ Hbr (pos p))). exact Ha.
  - eapply backtrack_pre_inv; eassumption.
Qed.

Lemma dpor_accesses_pinv a accs dv id p p' :
  dpor_accesses accs dv id p = POk p' -> pinv a p -> pinv a p'.
Proof.
  revert p; induction accs as [|acc rest IH]; intros p H Hinv; cbn [dpor_accesses] in H.
  - injection H as <-. exact Hinv.
  - destruct (access_hb acc dv); [eauto|].
    destruct (backtrack p (a_path_id acc) id) as [p1|x] eqn:Hb; [|discriminate].
    eapply IH; [exact H|]. eapply backtrack_pinv; eassumption.
Qed.

Lemma dpor_loop_pinv a objs ths p p' : dpor_loop objs ths p = POk p' -> pinv a p -> pinv a p'.
Proof.
  revert p; induction ths as [|[id th] rest IH]; intros p H Hinv; cbn [dpor_loop] in H.
  - injection H as <-. exact Hinv.
  - destruct (t_op th) as [op|]; [|eauto].
    destruct (nth_error objs (op_obj op)) as [o|]; [|discriminate].
    destruct (last_dependent_accesses o (op_act op)) as [accs|]; [|discriminate].
    destruct (dpor_accesses accs (t_dpor th) id p) as [p1|x] eqn:Ha; [|discriminate].
    eapply IH; [exact H|]. eapply dpor_accesses_pinv; eassumption.
Qed.

(* what branch_thread returns: the Active thread of the entry at the old
   position, and the position advanced by one *)
Lemma branch_thread_ret p seed p' t :
  branch_thread p seed = POk (p', t) ->
  exists q s, p' = set_pos q (S (pos q)) /\ pos q = pos p /\
              nth_error (branches q) (pos q) = Some (ESched s) /\
              t = active_thread_index s.
Proof.
  unfold branch_thread. intros H.
  destruct (is_traversed p).
  - destruct (path_len_ok p); cbn [negb] in H; [|discriminate].
    destruct (Nat.ltb MAX_THREADS (length seed)); [discriminate|].
    destruct (Nat.ltb 1 (length (filter is_active seed))); [discriminate|].
    cbv zeta in H.
    match type of H with
    | context [mkSched ?pre ?ia ?th ?prev ?ex] =>
        set (NS := mkSched pre ia th prev ex) in *; set (PRE := pre) in *
    end.
    destruct (opt_le_bound PRE (bound p)); cbn [negb] in H; [|discriminate].
    cbv iota in H.
    set (Q := set_branches p (branches p ++ [ESched NS])) in *.
    destruct (nth_error (branches Q) (pos Q)) as [[s|l|s]|] eqn:Hn; try discriminate.
    injection H as <- <-. exists Q, s. auto.
  - cbv iota in H.
    destruct (nth_error (branches p) (pos p)) as [[s|l|s]|] eqn:Hn; try discriminate.
    injection H as <- <-. exists p, s. auto.
Qed.

Lemma is_traversed_all p : is_traversed p = true -> firstn (pos p) (branches p) = branches p.
Proof.
  unfold is_traversed. intros H. apply Nat.eqb_eq in H. rewrite H. apply firstn_all.
Qed.

Lemma branch_thread_pinv a p seed p' t :
  pinv a p ->
  (is_traversed p = true -> seed_switch_ok a seed) ->
  branch_thread p seed = POk (p', t) -> pinv t p'.
Proof.
  intros [[Hpos Ha] Hpre] Hseed H. split.
  - destruct (branch_thread_ret _ _ _ _ H) as (q & s & -> & _ & Hn & ->).
    apply advance_sched_ainv. exact Hn.
  - eapply branch_thread_pre_inv_gen; [exact Hpre| |exact H].
    intros Htr. rewrite <- (is_traversed_all _ Htr), <- Ha. exact (Hseed Htr).
Qed.

(* ------------------------------------------------------------------ *)
(* 3. the seed of Execution::schedule                                  *)
(* ------------------------------------------------------------------ *)

(* the running thread stays Active in the seed, or else it is Disabled/Yield *)
Lemma sched_seed_switch_ok l curr cur_th :
  nth_error l curr = Some cur_th ->
  seed_switch_ok (Some curr) (sched_seed l curr cur_th).
Proof.
  intros Hc.
  destruct (sched_seed_nth l curr cur_th curr cur_th Hc) as (st & Hst & Hcl & Hact & Hini).
  destruct (is_runnable cur_th) eqn:Hr.
  - (* the running thread can continue: it is the only Active entry *)
    apply seed_switch_ok_keep.
    assert (Hi : sched_initial l curr cur_th = Some curr)
      by (unfold sched_initial; rewrite Hr; reflexivity).
    assert (Hsa : nth_error (sched_seed l curr cur_th) curr = Some Active)
      by (rewrite (Hini Hi) in Hst; exact Hst).
    destruct (find_index is_active (sched_seed l curr cur_th)) as [i|] eqn:Hfa.
    + destruct (find_index_Some _ _ _ _ Hfa) as (x & Hx & Hxa).
      apply tstat_eqb_eq in Hxa. subst x.
      destruct (sched_seed_nth_inv _ _ _ _ _ Hx) as (th' & Hth').
      destruct (sched_seed_nth l curr cur_th i th' Hth') as (st' & Hst' & _ & Hact' & _).
      assert (st' = Active) by congruence. subst st'.
      rewrite Hi in Hact'. destruct (Hact' eq_refl) as [He|[He _]]; congruence.
    + apply find_index_None in Hfa.
      pose proof (nth_error_In_Forall _ _ _ _ _ Hfa Hsa) as Hf. discriminate Hf.
  - (* the running thread is blocked, yielded or terminated *)
    apply seed_switch_ok_blocked.
    rewrite (nth_error_nth _ _ Disabled Hst).
    destruct Hcl as [->| ->].
    + exfalso. destruct (Hact eq_refl) as [Hi|[_ Hr']]; [|congruence].
      destruct (sched_initial_runnable _ _ _ _ Hc Hi) as (th' & Hth' & Hr').
      congruence.
    + unfold seed_class. destruct (is_yield cur_th); [right; reflexivity|].
      rewrite Hr. left. reflexivity.
Qed.

Lemma seed_loop_clean ths initial :
  Forall (fun t => t <> Pending /\ t <> Visited) (seed_loop ths initial).
Proof.
  revert initial; induction ths as [|[i th] rest IH]; intros initial; cbn [seed_loop].
  - constructor.
  - constructor; [|apply IH].
    destruct (opt_nat_eqb _ _); [split; discriminate|].
    destruct (is_yield th); [split; discriminate|].
    destruct (negb (is_runnable th)); split; discriminate.
Qed.

(* the full hypothesis of PathPreempt.reach *)
Lemma sched_seed_ok l curr cur_th :
  nth_error l curr = Some cur_th -> seed_ok (Some curr) (sched_seed l curr cur_th).
Proof.
  intros Hc. split; [apply sched_seed_switch_ok; exact Hc|apply seed_loop_clean].
Qed.

(* ------------------------------------------------------------------ *)
(* 4. schedule                                                         *)
(* ------------------------------------------------------------------ *)

Definition einv (e : exec) : Prop := pinv (e_active e) (e_path e).

Lemma sched_prefix_pinv e curr cur_th p1 p2 next :
  sched_prefix e curr cur_th p1 p2 next -> einv e -> pinv next p2.
Proof.
  intros (Hact & Hc & Hd & Hb) Hinv. unfold einv in Hinv. rewrite Hact in Hinv.
  eapply branch_thread_pinv; [eapply dpor_loop_pinv; eassumption| |exact Hb].
  intros _. apply sched_seed_switch_ok. exact Hc.
Qed.

Lemma sched_post_active e curr pid next :
  e_active (res_exec (fst (sched_post e curr pid next))) = e_active e.
Proof.
  unfold sched_post. destruct next as [nx|].
  - destruct (nth_error _ _); [|reflexivity].
    cbn [fst res_exec]. apply sched_note_active.
  - destruct (forallb _ _); reflexivity.
Qed.

Lemma schedule_einv e : einv e -> einv (res_exec (fst (schedule e))).
Proof.
  intros Hinv.
  destruct (schedule_cases e)
    as [(c & ->)|[(x & ->)|[(p1 & x & Hd & ->)|(curr & cur_th & p1 & p2 & next & Hp & ->)]]].
  - exact Hinv.
  - exact Hinv.
  - cbn [fst res_exec]. unfold einv. cbn [ex_set_path e_active e_path].
    eapply dpor_loop_pinv; eassumption.
  - unfold einv. rewrite sched_post_path, sched_post_active.
    cbn [sched_base ex_set_active ex_set_path e_active e_path].
    eapply sched_prefix_pinv; eassumption.
Qed.

(* ------------------------------------------------------------------ *)
(* 5. framing: e_active is written by schedule only                    *)
(* ------------------------------------------------------------------ *)
Lemma upd_thread_active e i f : e_active (upd_thread e i f) = e_active e.
Proof. reflexivity. Qed.
Lemma upd_object_active e i f : e_active (upd_object e i f) = e_active e.
Proof. reflexivity. Qed.
Lemma upd_hobj_active e i f : e_active (upd_hobj e i f) = e_active e.
Proof. reflexivity. Qed.
Lemma ex_set_path_active e p : e_active (ex_set_path e p) = e_active e.
Proof. reflexivity. Qed.
Lemma ex_set_threads_active e x : e_active (ex_set_threads e x) = e_active e.
Proof. reflexivity. Qed.
Lemma ex_set_seqcst_active e x : e_active (ex_set_seqcst e x) = e_active e.
Proof. reflexivity. Qed.
Lemma ex_set_objects_active e x : e_active (ex_set_objects e x) = e_active e.
Proof. reflexivity. Qed.
Lemma ex_set_h_active e x : e_active (ex_set_h e x) = e_active e.
Proof. reflexivity. Qed.
Lemma ex_set_spawned_active e x : e_active (ex_set_spawned e x) = e_active e.
Proof. reflexivity. Qed.
Lemma ex_set_joined_active e x : e_active (ex_set_joined e x) = e_active e.
Proof. reflexivity. Qed.
Lemma ex_set_log_active e x : e_active (ex_set_log e x) = e_active e.
Proof. reflexivity. Qed.
Lemma ex_set_lazy_active e x : e_active (ex_set_lazy e x) = e_active e.
Proof. reflexivity. Qed.
Lemma set_caus_active e me v : e_active (set_caus e me v) = e_active e.
Proof. reflexivity. Qed.
Lemma causality_inc_active e me : e_active (causality_inc e me) = e_active e.
Proof. reflexivity. Qed.
Lemma push_cont_active e me ms : e_active (push_cont e me ms) = e_active e.
Proof. reflexivity. Qed.
Lemma log_op_active e me r : e_active (log_op e me r) = e_active e.
Proof. unfold log_op. destruct (get_thread e me); reflexivity. Qed.
Lemma log_poll_active e me : e_active (log_poll e me) = e_active e.
Proof. unfold log_poll. destruct (get_thread e me); reflexivity. Qed.
Lemma map_others_active e me p f : e_active (map_others e me p f) = e_active e.
Proof. reflexivity. Qed.
Lemma threads_unpark_active e me id : e_active (threads_unpark e me id) = e_active e.
Proof. unfold threads_unpark. destruct (Nat.eqb id me); reflexivity. Qed.
Lemma set_slot_active e k i b : e_active (set_slot e k i b) = e_active e.
Proof. reflexivity. Qed.
Lemma push_guard_active e me k m : e_active (push_guard e me k m) = e_active e.
Proof. reflexivity. Qed.
Lemma drop_guard_active e me k m : e_active (drop_guard e me k m) = e_active e.
Proof. reflexivity. Qed.

Lemma release_lock_active e me m : e_active (release_lock e me m) = e_active e.
Proof.
  unfold release_lock. destruct (get_mutex e m); [|reflexivity].
  cbv zeta.
  match goal with
  | |- e_active (match ?x with _ => _ end) = _ => destruct x; reflexivity
  end.
Qed.

Lemma post_acquire_active e me m : e_active (fst (post_acquire e me m)) = e_active e.
Proof.
  unfold post_acquire. destruct (get_mutex e m) as [s|]; [|reflexivity].
  destruct (is_some (mx_lock s)); reflexivity.
Qed.

Lemma post_acquire_read_active e me r : e_active (fst (post_acquire_read e me r)) = e_active e.
Proof.
  unfold post_acquire_read. destruct (get_rw e r) as [s|]; [|reflexivity].
  destruct (rw_lock s) as [[?|?]|]; reflexivity.
Qed.

Lemma post_acquire_write_active e me r : e_active (fst (post_acquire_write e me r)) = e_active e.
Proof.
  unfold post_acquire_write. destruct (get_rw e r) as [s|]; [|reflexivity].
  destruct (rw_lock s); reflexivity.
Qed.

Lemma release_read_active e me r : e_active (res_exec (release_read e me r)) = e_active e.
Proof.
  unfold release_read. destruct (get_rw e r) as [s|]; [|reflexivity].
  cbv zeta. destruct (rw_lock s) as [[rs|?]|]; try reflexivity.
  destruct (set_remove me rs); reflexivity.
Qed.

Lemma release_write_active e me r : e_active (res_exec (release_write e me r)) = e_active e.
Proof. unfold release_write. destruct (get_rw e r); reflexivity. Qed.

Lemma fold_unpark_active me l e :
  e_active (fold_left (fun e t => threads_unpark e me t) l e) = e_active e.
Proof.
  revert e; induction l as [|w l IH]; intros e; cbn [fold_left]; [reflexivity|].
  rewrite IH. apply threads_unpark_active.
Qed.

Global Hint Rewrite upd_thread_active upd_object_active upd_hobj_active ex_set_path_active
  ex_set_threads_active ex_set_seqcst_active ex_set_objects_active
  ex_set_h_active ex_set_spawned_active ex_set_joined_active ex_set_log_active
  ex_set_lazy_active set_caus_active causality_inc_active push_cont_active log_op_active
  log_poll_active map_others_active threads_unpark_active set_slot_active push_guard_active
  drop_guard_active release_lock_active fold_unpark_active : eact.

(* ------------------------------------------------------------------ *)
(* 6. the operations that touch the path                               *)
(* ------------------------------------------------------------------ *)

(* [e'] is reached from [e] by operations that keep the invariant *)
Definition keeps (e e' : exec) : Prop := einv e -> einv e'.

Lemma keeps_refl e : keeps e e.
Proof. intros H. exact H. Qed.

Lemma keeps_trans e1 e2 e3 : keeps e1 e2 -> keeps e2 e3 -> keeps e1 e3.
Proof. unfold keeps. auto. Qed.

(* same active thread, same path *)
Lemma keeps_same e e' : e_active e' = e_active e -> e_path e' = e_path e -> keeps e e'.
Proof. unfold keeps, einv. intros -> ->. auto. Qed.

Lemma schedule_keeps_k e0 e :
  keeps e0 e -> keeps e0 (res_exec (fst (schedule e))).
Proof. intros H H0. apply schedule_einv. auto. Qed.

Lemma do_branch_keeps_k e0 e me obj act blk :
  keeps e0 e -> keeps e0 (res_exec (do_branch e me obj act blk)).
Proof.
  intros H. unfold do_branch. apply schedule_keeps_k.
  eapply keeps_trans; [exact H|]. apply keeps_same; reflexivity.
Qed.

Lemma do_park_keeps_k e0 e me :
  keeps e0 e -> keeps e0 (res_exec (do_park e me)).
Proof.
  intros H. unfold do_park. destruct (get_thread e me) as [t|]; [|exact H].
  destruct (t_token t); cbn [res_exec].
  - eapply keeps_trans; [exact H|]. apply keeps_same; reflexivity.
  - apply schedule_keeps_k. eapply keeps_trans; [exact H|]. apply keeps_same; reflexivity.
Qed.

Lemma do_yield_keeps_k e0 e me :
  keeps e0 e -> keeps e0 (res_exec (do_yield e me)).
Proof.
  intros H. unfold do_yield. apply schedule_keeps_k.
  eapply keeps_trans; [exact H|]. apply keeps_same; reflexivity.
Qed.

(* a path operation performed on the state: the active thread is kept and the
   new path satisfies the invariant for every active thread the old one did *)
Definition pstep (p p' : path) : Prop := forall a, pinv a p -> pinv a p'.

Lemma pstep_refl p : pstep p p.
Proof. intros a H. exact H. Qed.

Lemma keeps_pstep e e' :
  e_active e' = e_active e -> pstep (e_path e) (e_path e') -> keeps e e'.
Proof. unfold keeps, einv. intros -> Hp. apply Hp. Qed.

Lemma choose_store_keeps e seed : keeps e (fst (choose_store e seed)).
Proof.
  unfold choose_store.
  destruct (is_traversed (e_path e)).
  - destruct seed as [sd|]; [|apply keeps_refl].
    destruct (push_load (e_path e) sd) as [p1|x] eqn:Hp; [|apply keeps_refl].
    destruct (branch_load p1) as [[p2 idx]|x] eqn:Hb; cbn [fst]; [|apply keeps_refl].
    apply keeps_pstep; [reflexivity|]. cbn [ex_set_path e_path].
    intros a Ha. eapply branch_load_pinv; [exact Hb|]. eapply push_load_pinv; eassumption.
  - destruct (branch_load (e_path e)) as [[p2 idx]|x] eqn:Hb; cbn [fst]; [|apply keeps_refl].
    apply keeps_pstep; [reflexivity|]. cbn [ex_set_path e_path].
    intros a Ha. eapply branch_load_pinv; eassumption.
Qed.

Lemma load_post_keeps e me a o : keeps e (lp_exec (load_post e me a o)).
Proof.
  unfold load_post.
  destruct (get_atomic (causality_inc e me) a) as [s|];
    [|cbn [lp_exec]; apply keeps_same; reflexivity].
  destruct (get_thread (causality_inc e me) me) as [t|];
    [|cbn [lp_exec]; apply keeps_same; reflexivity].
  pose proof (choose_store_keeps (causality_inc e me)
                (match_load_to_stores s me (t_caus t) (t_last_yield t) o)) as H.
  assert (H0 : keeps e (causality_inc e me)) by (apply keeps_same; reflexivity).
  destruct (choose_store (causality_inc e me) (match_load_to_stores s me (t_caus t) (t_last_yield t) o))
    as [e1 [idx|p]]; cbn [fst] in H.
  - destruct (atomic_load s me (t_caus t) idx o) as [[[s' c'] v]|p]; cbn [lp_exec].
    + eapply keeps_trans; [exact H0|]. eapply keeps_trans; [exact H|].
      apply keeps_same; reflexivity.
    + eapply keeps_trans; eassumption.
  - cbn [lp_exec]. eapply keeps_trans; eassumption.
Qed.

(* ------------------------------------------------------------------ *)
(* 7. one micro-operation                                              *)
(* ------------------------------------------------------------------ *)

Ltac use_eqs3 :=
  repeat match goal with
         | H : e_path _ = _ |- _ => rewrite H in *; clear H
         | H : e_active _ = _ |- _ => rewrite H in *; clear H
         end.

Ltac micro_step3 :=
  match goal with
  | |- keeps _ (res_exec (fst (schedule _))) => apply schedule_keeps_k
  | |- keeps _ (res_exec (do_branch _ _ _ _ _)) => apply do_branch_keeps_k
  | |- keeps _ (res_exec (do_park _ _)) => apply do_park_keeps_k
  | |- keeps _ (res_exec (do_yield _ _)) => apply do_yield_keeps_k
  | |- context [post_acquire ?e ?me ?m] =>
      let H := fresh "Hfr" in
      let H' := fresh "Hfa" in
      pose proof (post_acquire_path e me m) as H;
      pose proof (post_acquire_active e me m) as H';
      destruct (post_acquire e me m); cbn [fst] in H, H'
  | |- context [post_acquire_read ?e ?me ?m] =>
      let H := fresh "Hfr" in
      let H' := fresh "Hfa" in
      pose proof (post_acquire_read_path e me m) as H;
      pose proof (post_acquire_read_active e me m) as H';
      destruct (post_acquire_read e me m); cbn [fst] in H, H'
  | |- context [post_acquire_write ?e ?me ?m] =>
      let H := fresh "Hfr" in
      let H' := fresh "Hfa" in
      pose proof (post_acquire_write_path e me m) as H;
      pose proof (post_acquire_write_active e me m) as H';
      destruct (post_acquire_write e me m); cbn [fst] in H, H'
  | |- context [release_read ?e ?me ?m] =>
      let H := fresh "Hfr" in
      let H' := fresh "Hfa" in
      pose proof (release_read_path e me m) as H;
      pose proof (release_read_active e me m) as H';
      destruct (release_read e me m); cbn [res_exec] in H, H'
  | |- context [release_write ?e ?me ?m] =>
      let H := fresh "Hfr" in
      let H' := fresh "Hfa" in
      pose proof (release_write_path e me m) as H;
      pose proof (release_write_active e me m) as H';
      destruct (release_write e me m); cbn [res_exec] in H, H'
  | |- context [load_post ?e ?me ?a ?o] =>
      let H := fresh "Hlp" in
      pose proof (load_post_keeps e me a o) as H;
      destruct (load_post e me a o) as [[? ?]|[? ?]]; cbn [lp_exec] in H
  | |- context [choose_store ?e ?s] =>
      let H := fresh "Hcs" in
      pose proof (choose_store_keeps e s) as H;
      destruct (choose_store e s) as [? [?|?]]; cbn [fst] in H
  | |- context [branch_spurious ?p] =>
      let H := fresh "Hbs" in
      destruct (branch_spurious p) as [[? ?]|?] eqn:H;
      [let H2 := fresh "Hps" in
       pose proof (fun a => branch_spurious_pinv a _ _ _ H) as H2; clear H|]
  | |- context [explore_state ?p] =>
      let H := fresh "Hes" in
      destruct (explore_state p) eqn:H;
      [let H2 := fresh "Hps" in
       pose proof (fun a => explore_state_pinv a _ _ H) as H2; clear H|]
  | |- context [critical ?p] =>
      let H := fresh "Hcr" in
      destruct (critical p) eqn:H;
      [let H2 := fresh "Hps" in
       pose proof (fun a => critical_pinv a _ _ H) as H2; clear H|]
  | |- context [match ?x with _ => _ end] =>
      lazymatch x with
      | context [match _ with _ => _ end] => fail
      | _ => destruct x
      end
  end.

(* [unfold keeps, einv] in a hypothesis [keeps a b] gives an implication
   between [pinv]s; after rewriting with the framing lemmas the goal follows
   by chaining at most a few of them *)
Ltac micro_close3 :=
  cbn [res_exec]; unfold keeps, einv in *;
  let Hinv := fresh "Hinv" in intro Hinv;
  autorewrite with epath eact in *; use_eqs3;
  autorewrite with epath eact in *;
  timeout 20 (eauto 6 using skip_branch_pinv).

Ltac micro_tac3 :=
  cbn [exec_micro]; unfold lift_path, mbind;
  repeat micro_step3; micro_close3.

Lemma exec_micro_keeps e me m : keeps e (res_exec (exec_micro e me m)).
Proof. destruct m; micro_tac3. Qed.

(* ------------------------------------------------------------------ *)
(* 8. Scheduler::run, one iteration                                    *)
(* ------------------------------------------------------------------ *)
Lemma run_keeps fuel e : keeps e (fst (run fuel e)).
Proof.
  revert e; induction fuel as [|fuel IH]; intros e; cbn [run].
  - apply keeps_refl.
  - destruct (e_active e) as [me|] eqn:Hact; [|apply keeps_refl].
    destruct (nth_error (e_threads e) me) as [t|]; [|apply keeps_refl].
    destruct (t_cont t) as [|m rest]; [apply keeps_refl|].
    pose proof (exec_micro_keeps (upd_thread e me (fun t => th_set_cont t rest)) me m) as Hm.
    assert (H0 : keeps e (upd_thread e me (fun t => th_set_cont t rest)))
      by (apply keeps_same; reflexivity).
    destruct (exec_micro _ me m) as [e2|e2 pn]; cbn [res_exec] in Hm.
    + eapply keeps_trans; [exact H0|]. eapply keeps_trans; [exact Hm|apply IH].
    + cbn [fst]. eapply keeps_trans; eassumption.
Qed.

Lemma init_exec_active p pa : e_active (init_exec p pa) = Some 0.
Proof. reflexivity. Qed.

Lemma pinv_pos0 pa : pos pa = 0 -> pre_inv (branches pa) -> pinv (Some 0) pa.
Proof.
  intros Hpos Hpre. unfold pinv, ainv. rewrite Hpos. cbn [firstn].
  split; [split; [apply Nat.le_0_l|reflexivity]|exact Hpre].
Qed.

Theorem iteration_einv fuel p pa :
  pinv (Some 0) pa -> einv (fst (iteration fuel p pa)).
Proof.
  intros H. rewrite iteration_fst. apply run_keeps.
  unfold einv. rewrite init_exec_active, init_exec_path. exact H.
Qed.

(* ------------------------------------------------------------------ *)
(* 9. main theorems                                                    *)
(* ------------------------------------------------------------------ *)

(* general form: the iteration may start anywhere in a stored stack, provided
   the stack agrees that the main thread is the one running there *)
Theorem L_iteration_pre_inv_gen : forall fuel p pa,
  pinv (Some 0) pa -> pre_inv (branches (e_path (fst (iteration fuel p pa)))).
Proof. intros fuel p pa H. exact (proj2 (iteration_einv fuel p pa H)). Qed.

Theorem L_iteration_pre_inv : forall fuel p pa,
  pos pa = 0 -> pre_inv (branches pa) ->
  pre_inv (branches (e_path (fst (iteration fuel p pa)))).
Proof.
  intros fuel p pa Hpos Hpre. apply L_iteration_pre_inv_gen. apply pinv_pos0; assumption.
Qed.

Theorem L_iteration_switches_le_bound : forall fuel p pa bd,
  pos pa = 0 -> pre_inv (branches pa) -> c15_inv pa -> bound pa = Some bd ->
  switches (branches (e_path (fst (iteration fuel p pa)))) <= bd.
Proof.
  intros fuel p pa bd Hpos Hpre Hc Hbd.
  destruct (iteration_path_ok fuel p pa) as (Hext & _ & Hc15).
  apply switches_le_bound.
  - apply L_iteration_pre_inv; assumption.
  - auto.
  - destruct Hext as (Hb & _). congruence.
Qed.

(* the hypotheses hold initially and are preserved by step *)
Lemma initial_path_pos c : pos (initial_path c) = 0.
Proof. reflexivity. Qed.

Lemma initial_path_bound c : bound (initial_path c) = preemption_bound c.
Proof. reflexivity. Qed.

Lemma initial_path_pre_inv c : pre_inv (branches (initial_path c)).
Proof. apply pre_inv_new. Qed.

Lemma step_pos p p' : step p = Some p' -> pos p' = 0.
Proof.
  unfold step. destruct (step_rev (rev (branches p))); [|discriminate].
  intros H. injection H as <-. reflexivity.
Qed.

Lemma step_bound p p' : step p = Some p' -> bound p' = bound p.
Proof.
  unfold step. destruct (step_rev (rev (branches p))); [|discriminate].
  intros H. injection H as <-. reflexivity.
Qed.

(* the state in which every iteration of the exploration loop starts *)
Definition start_ok (bd : nat) (pa : path) : Prop :=
  pos pa = 0 /\ pre_inv (branches pa) /\ c15_inv pa /\ bound pa = Some bd.

Lemma initial_path_start_ok c bd : preemption_bound c = Some bd -> start_ok bd (initial_path c).
Proof.
  intros Hbd. unfold start_ok.
  split; [apply initial_path_pos|]. split; [apply initial_path_pre_inv|].
  split; [exact (proj2 (initial_path_ok c))|]. rewrite initial_path_bound. exact Hbd.
Qed.

Lemma iteration_step_start_ok fuel p pa bd pa' :
  start_ok bd pa -> step (e_path (fst (iteration fuel p pa))) = Some pa' -> start_ok bd pa'.
Proof.
  intros (Hpos & Hpre & Hc & Hbd) Hs.
  destruct (iteration_path_ok fuel p pa) as (Hext & _ & Hc15).
  unfold start_ok.
  split; [eapply step_pos; exact Hs|].
  split; [eapply step_pre_inv; [exact Hs|apply L_iteration_pre_inv; assumption]|].
  split; [eapply step_c15; [|exact Hs]; auto|].
  rewrite (step_bound _ _ Hs). destruct Hext as (Hb & _). congruence.
Qed.

Lemma explore_switches_le_bound fuel p bd n : forall pa k pk,
  start_ok bd pa ->
  nth_error (explore (fun pa => e_path (fst (iteration fuel p pa))) n pa) k = Some pk ->
  switches (branches pk) <= bd.
Proof.
  induction n as [|n IH]; intros pa k pk Hst Hk; cbn [explore] in Hk.
  - destruct k; discriminate.
  - destruct k as [|k]; cbn [nth_error] in Hk.
    + injection Hk as <-. destruct Hst as (Hpos & Hpre & Hc & Hbd).
      apply L_iteration_switches_le_bound; assumption.
    + destruct (step (e_path (fst (iteration fuel p pa)))) as [pa'|] eqn:Hs.
      * eapply IH; [|exact Hk]. eapply iteration_step_start_ok; eassumption.
      * destruct k; discriminate.
Qed.

Theorem L_explore_switches_le_bound : forall fuel p c n k pk bd,
  preemption_bound c = Some bd ->
  nth_error (explore (fun pa => e_path (fst (iteration fuel p pa))) n (initial_path c)) k
    = Some pk ->
  switches (branches pk) <= bd.
Proof.
  intros fuel p c n k pk bd Hbd Hk.
  eapply explore_switches_le_bound; [|exact Hk]. apply initial_path_start_ok. exact Hbd.
Qed.

(* every explored path is reachable in the sense of PathPreempt.reach as far
   as its invariant is concerned: pre_inv holds on it *)
Theorem L_explore_pre_inv : forall fuel p c n k pk,
  nth_error (explore (fun pa => e_path (fst (iteration fuel p pa))) n (initial_path c)) k
    = Some pk ->
  pre_inv (branches pk).
Proof.
  intros fuel p c n.
  assert (Hgen : forall pa k pk, pos pa = 0 -> pre_inv (branches pa) ->
            nth_error (explore (fun pa => e_path (fst (iteration fuel p pa))) n pa) k = Some pk ->
            pre_inv (branches pk)).
  { induction n as [|n IH]; intros pa k pk Hpos Hpre Hk; cbn [explore] in Hk.
    - destruct k; discriminate.
    - destruct k as [|k]; cbn [nth_error] in Hk.
      + injection Hk as <-. apply L_iteration_pre_inv; assumption.
      + destruct (step (e_path (fst (iteration fuel p pa)))) as [pa'|] eqn:Hs.
        * eapply IH; [| |exact Hk]; [eapply step_pos; exact Hs|].
          eapply step_pre_inv; [exact Hs|apply L_iteration_pre_inv; assumption].
        * destruct k; discriminate. }
  intros k pk Hk. eapply Hgen; [| |exact Hk]; [apply initial_path_pos|apply initial_path_pre_inv].
Qed.

(* ------------------------------------------------------------------ *)
(* 10. non-vacuity, and the counterexample for pos <> 0                *)
(* ------------------------------------------------------------------ *)

(* two threads store to one atomic; preemption_bound = Some 1 *)
Definition cfg_b1 : config := mkConfig 5 1000 (Some 1) None None false.
Definition p_two_stores : prog :=
  mkProg cfg_b1 [DAtomic 0]
    [[ISpawn 1; IStore 0 1 SeqCst; IJoin 1]; [IStore 0 2 SeqCst]].

Definition FUELP : nat := 100 * 100.

Definition explored_two_stores : list path :=
  explore (fun pa => e_path (fst (iteration FUELP p_two_stores pa))) 100 (initial_path cfg_b1).

(* the exploration finishes by itself, some explored path has exactly one
   switch, and none has more *)
Example L_switches_nonvacuous :
  finishes (fun pa => e_path (fst (iteration FUELP p_two_stores pa))) 100 (initial_path cfg_b1)
    = true /\
  existsb (fun pk => Nat.eqb (switches (branches pk)) 1) explored_two_stores = true /\
  forallb (fun pk => Nat.leb (switches (branches pk)) 1) explored_two_stores = true /\
  1 < length explored_two_stores.
Proof. vm_compute. repeat split; reflexivity. Qed.

(* [pos pa = 0] cannot be dropped from L_iteration_pre_inv (nor replaced by
   wf_path): a stack whose only Schedule entry has thread 1 Active, entered
   behind that entry (pos = 1), while the execution starts with the main
   thread running.  At the first scheduling point thread 0 keeps running and
   thread 1 is runnable: the new entry has initial_active = None although the
   stack's "previously running" thread 1 could have continued. *)
Definition pa_mid : path :=
  mkPath None 1
         [ESched (mkSched 0 None [Disabled; Active; Disabled; Disabled; Disabled] None true)]
         true false true 1000.

Lemma pa_mid_ok : wf_path pa_mid /\ pre_inv (branches pa_mid) /\ c15_inv pa_mid.
Proof.
  split; [|split].
  - split; [repeat constructor|cbn; lia].
  - cbn. unfold link. cbn. repeat split; try tauto; try discriminate.
    right. intros u Hu. injection Hu as <-. reflexivity.
  - repeat constructor.
Qed.

Definition stack_mid : list entry :=
  branches (e_path (fst (iteration FUELP p_two_stores pa_mid))).

(* a stack that starts with two Schedule entries, the first one with thread 1
   Active, the second one with initial_active = None and thread 1 runnable,
   violates pre_inv *)
Definition bad_stack (b : list entry) : bool :=
  match b with
  | ESched s0 :: ESched s :: _ =>
      opt_nat_eqb (active_thread_index s0) (Some 1) && negb (is_some (s_ia s)) &&
      runnable_status (thread_status s 1)
  | _ => false
  end.

Lemma bad_stack_not_pre_inv b : bad_stack b = true -> ~ pre_inv b.
Proof.
  unfold bad_stack. intros Hb H.
  destruct b as [|[s0|l0|sp0] [|[s|l|sp] rest]]; try discriminate.
  apply andb_true_iff in Hb. destruct Hb as [Hb Hrun].
  apply andb_true_iff in Hb. destruct Hb as [Hact Hia].
  apply opt_nat_eqb_eq in Hact.
  unfold pre_inv in H. cbn [pre_inv_from] in H.
  destruct H as (_ & (_ & _ & _ & Hl) & _).
  cbn [st_of st_act] in Hl. rewrite Hact in Hl. destruct Hl as [Hl|Hl].
  - rewrite Hl in Hia. discriminate.
  - rewrite (Hl 1 eq_refl) in Hrun. discriminate.
Qed.

Lemma stack_mid_bad : bad_stack stack_mid = true.
Proof. vm_compute. reflexivity. Qed.

Lemma L_iteration_pre_inv_needs_pos :
  wf_path pa_mid /\ pre_inv (branches pa_mid) /\ ~ pre_inv stack_mid.
Proof.
  destruct pa_mid_ok as (H1 & H2 & _). split; [exact H1|]. split; [exact H2|].
  apply bad_stack_not_pre_inv. exact stack_mid_bad.
Qed.

Print Assumptions sched_seed_ok.
Print Assumptions schedule_einv.
Print Assumptions exec_micro_keeps.
Print Assumptions L_iteration_pre_inv_gen.
Print Assumptions L_iteration_pre_inv.
Print Assumptions L_iteration_switches_le_bound.
Print Assumptions L_explore_switches_le_bound.
Print Assumptions L_explore_pre_inv.
Print Assumptions L_switches_nonvacuous.
Print Assumptions L_iteration_pre_inv_needs_pos.
