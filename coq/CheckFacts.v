(* Facts about the loop of Builder::check (Check.v: check_loop / check /
   check_from).  The iteration itself ([iteration], hence [rec_of]) is opaque:
   everything here is about the loop structure.

   Properties covered: C06 (a failing iteration fails the run, and only then),
   C16 (iterations are isolated), C13 (deterministic, resumable), C19 (limits).

   Method.  [Loop fuel p n i pa ck rest fin ck'] is an inductive description
   of [check_loop n fuel p i pa ck acc = (rev acc ++ rest, fin, ck')]
   ([check_loop_Loop], an equivalence); all theorems are inductions on it and
   are then transported back to [check_loop].  "New records" of a call with
   accumulator [acc] are the [rest] with [recs = rev acc ++ rest]; theorems
   other than 1 and 2 take the hypothesis directly in the form
   [check_loop ... acc = (rev acc ++ rest, fin, ck')] (for [acc = []] this is
   convertible to [(rest, fin, ck')]; by [app_inv_head] it is as strong as
   the "exists rest" form).

   DEVIATIONS from the requested statements (all are strengthenings or
   necessary side conditions):

   * resume_is_suffix: proved exactly as requested (fuel [ifuel - k]).  The
     hypothesis [fin <> RunFuel] is not needed: [resume_is_suffix_gen] is the
     same statement without it.  [resume_is_suffix_ge] is the variant "any
     ifuel2 >= ifuel - k" (that one does need [fin <> RunFuel]).

   * checkpoint_is_begin_of_boundary: "fin is RunPanic or RunOk-by-exhaustion"
     is expressed as the hypothesis
        fin = RunOk -> step (ir_end (last rest d)) = None
     (so RunFuel is allowed too: the statement is true for it).  Without it
     the statement is false: when the run stops because of max_permutations,
     the loop has already stored the begin path of the iteration it did NOT
     start (interval 1, max_permutations = Some 2, check from i = 1: one
     record r, result RunOk, checkpoint = the successor [step (ir_end r)],
     not [ir_begin r]).

   * failing_checkpoint_first: for [check_loop] started at counter [i] the
     side condition [1 <= i] is required (check_from restarts the counter at
     1).  Counterexample without it: interval 1, max_permutations = Some 1,
     i = 0: iteration 0 runs (1 <= 0 is false) and may panic; check_from the
     stored checkpoint starts at i = 1, where 1 <= 1 stops the run at once
     with ([], RunOk).  For [check] (i = 1) there is no side condition
     ([failing_checkpoint_first_check]).  The conclusion is the strong form:
     the resumed run is exactly ([r], RunPanic pn, Some c) with r the failing
     record of the original run.

   * max_permutations_stops: stated with [ci_of] (covers the default interval
     too); the hypothesis [c > 0] of the sketch is not needed and was
     dropped.  [max_permutations_stops_some] is the instance with
     [checkpoint_interval = Some c], and [max_permutations_bound] the closed
     form bound [c * max i mp - i] (this one needs c > 0).  "Stopping because
     of the limit returns RunOk" is [limit_stop_is_ok]; the converse analysis
     of all RunOk outcomes is [run_ok_cases]. *)
Require Import LV.Base LV.VV LV.Path LV.Prog LV.Objects LV.Exec LV.Atomic LV.Ops LV.Check.
From Coq Require Import List Arith Lia Bool.
Import ListNotations.

(* ------------------------------------------------------------------ *)
(* vocabulary                                                          *)

(* the record produced by the iteration that begins at [pa] *)
Definition rec_of (fuel : nat) (p : prog) (pa : path) : iter_record :=
  let '(e, res) := iteration fuel p pa in
  mkIter pa (e_path e) (rev (e_log e)) res.

(* the "return" test at the top of the loop *)
Definition stop_at (p : prog) (i : nat) : bool :=
  Nat.eqb (Nat.modulo i (ci_of (p_cfg p))) 0 &&
  match max_permutations (p_cfg p) with
  | Some mp => Nat.leb mp i
  | None => false
  end.

(* the checkpoint file after the top of the loop *)
Definition ck_at (p : prog) (i : nat) (pa : path) (ck : option path) : option path :=
  if Nat.eqb (Nat.modulo i (ci_of (p_cfg p))) 0 then Some pa else ck.

Lemma rec_of_begin : forall fuel p pa, ir_begin (rec_of fuel p pa) = pa.
Proof.
  intros fuel p pa. unfold rec_of.
  destruct (iteration fuel p pa) as [e res]. reflexivity.
Qed.

Lemma check_loop_S : forall n fuel p i pa ck acc,
  check_loop (S n) fuel p i pa ck acc =
  if stop_at p i then (rev acc, RunOk, ck_at p i pa ck)
  else
    let r := rec_of fuel p pa in
    match ir_result r with
    | IterPanic pn => (rev (r :: acc), RunPanic pn, ck_at p i pa ck)
    | IterFuel => (rev (r :: acc), RunFuel, ck_at p i pa ck)
    | IterDone =>
        match step (ir_end r) with
        | Some pa' => check_loop n fuel p (S i) pa' (ck_at p i pa ck) (r :: acc)
        | None => (rev (r :: acc), RunOk, ck_at p i pa ck)
        end
    end.
Proof.
  intros n fuel p i pa ck acc.
  cbn [check_loop]. unfold stop_at, ck_at, rec_of.
  destruct (iteration fuel p pa) as [e res].
  destruct (_ && _); [reflexivity|].
  destruct res; reflexivity.
Qed.

(* C16, trivial part, stated while [iteration] is still transparent *)
Theorem init_exec_depends_on_path_only : forall p pa pa',
  ex_set_path (init_exec p pa) pa' = init_exec p pa'.
Proof. intros p pa pa'. reflexivity. Qed.

Theorem iteration_is_function_of_path : forall fuel p pa1 pa2,
  pa1 = pa2 -> iteration fuel p pa1 = iteration fuel p pa2.
Proof. intros fuel p pa1 pa2 E. rewrite E. reflexivity. Qed.

(* the iteration reads the program and its begin path, nothing else *)
Lemma iteration_unfold : forall fuel p pa,
  iteration fuel p pa =
  let '(e, r) := run fuel (init_exec p pa) in
  match r with
  | IterDone => match check_for_leaks (e_objects e) with
                | Some pn => (e, IterPanic pn)
                | None => (e, IterDone)
                end
  | _ => (e, r)
  end.
Proof. reflexivity. Qed.

Opaque iteration.

(* ------------------------------------------------------------------ *)
(* the loop as a relation                                              *)

Inductive Loop (fuel : nat) (p : prog) :
  nat -> nat -> path -> option path -> list iter_record -> run_end -> option path -> Prop :=
| L_out : forall i pa ck,
    Loop fuel p 0 i pa ck [] RunFuel ck
| L_limit : forall n i pa ck,
    stop_at p i = true ->
    Loop fuel p (S n) i pa ck [] RunOk (ck_at p i pa ck)
| L_panic : forall n i pa ck pn,
    stop_at p i = false ->
    ir_result (rec_of fuel p pa) = IterPanic pn ->
    Loop fuel p (S n) i pa ck [rec_of fuel p pa] (RunPanic pn) (ck_at p i pa ck)
| L_ifuel : forall n i pa ck,
    stop_at p i = false ->
    ir_result (rec_of fuel p pa) = IterFuel ->
    Loop fuel p (S n) i pa ck [rec_of fuel p pa] RunFuel (ck_at p i pa ck)
| L_last : forall n i pa ck,
    stop_at p i = false ->
    ir_result (rec_of fuel p pa) = IterDone ->
    step (ir_end (rec_of fuel p pa)) = None ->
    Loop fuel p (S n) i pa ck [rec_of fuel p pa] RunOk (ck_at p i pa ck)
| L_next : forall n i pa ck pa' rest fin ck',
    stop_at p i = false ->
    ir_result (rec_of fuel p pa) = IterDone ->
    step (ir_end (rec_of fuel p pa)) = Some pa' ->
    Loop fuel p n (S i) pa' (ck_at p i pa ck) rest fin ck' ->
    Loop fuel p (S n) i pa ck (rec_of fuel p pa :: rest) fin ck'.

Lemma loop_sound : forall fuel p n i pa ck rest fin ck',
  Loop fuel p n i pa ck rest fin ck' ->
  forall acc, check_loop n fuel p i pa ck acc = (rev acc ++ rest, fin, ck').
Proof.
  intros fuel p n i pa ck rest fin ck' HL.
  induction HL as [ i pa ck
                  | n i pa ck Hs
                  | n i pa ck pn Hs Hr
                  | n i pa ck Hs Hr
                  | n i pa ck Hs Hr Hst
                  | n i pa ck pa' rest fin ck' Hs Hr Hst HL IH ]; intro acc.
  - cbn [check_loop]. rewrite app_nil_r. reflexivity.
  - rewrite check_loop_S, Hs, app_nil_r. reflexivity.
  - rewrite check_loop_S, Hs. cbv zeta. rewrite Hr. reflexivity.
  - rewrite check_loop_S, Hs. cbv zeta. rewrite Hr. reflexivity.
  - rewrite check_loop_S, Hs. cbv zeta. rewrite Hr, Hst. reflexivity.
  - rewrite check_loop_S, Hs. cbv zeta. rewrite Hr, Hst, IH.
    cbn [rev]. rewrite <- app_assoc. reflexivity.
Qed.

Lemma loop_complete : forall fuel p n i pa ck acc recs fin ck',
  check_loop n fuel p i pa ck acc = (recs, fin, ck') ->
  exists rest, recs = rev acc ++ rest /\ Loop fuel p n i pa ck rest fin ck'.
Proof.
  intros fuel p n.
  induction n as [|n IH]; intros i pa ck acc recs fin ck' H.
  - cbn [check_loop] in H. inversion H; subst.
    exists []. split; [rewrite app_nil_r; reflexivity | constructor].
  - rewrite check_loop_S in H. destruct (stop_at p i) eqn:Hs.
    + inversion H; subst.
      exists []. split; [rewrite app_nil_r; reflexivity | constructor; assumption].
    + cbv zeta in H.
      destruct (ir_result (rec_of fuel p pa)) as [|pn|] eqn:Hr.
      * destruct (step (ir_end (rec_of fuel p pa))) as [pa'|] eqn:Hst.
        -- apply IH in H. destruct H as [rest [E HL]].
           exists (rec_of fuel p pa :: rest). split.
           ++ rewrite E. cbn [rev]. rewrite <- app_assoc. reflexivity.
           ++ eapply L_next; eassumption.
        -- inversion H; subst.
           exists [rec_of fuel p pa]. split; [reflexivity | apply L_last; assumption].
      * inversion H; subst.
        exists [rec_of fuel p pa]. split; [reflexivity | apply L_panic; assumption].
      * inversion H; subst.
        exists [rec_of fuel p pa]. split; [reflexivity | apply L_ifuel; assumption].
Qed.

Theorem check_loop_Loop : forall fuel p n i pa ck acc rest fin ck',
  check_loop n fuel p i pa ck acc = (rev acc ++ rest, fin, ck') <->
  Loop fuel p n i pa ck rest fin ck'.
Proof.
  intros fuel p n i pa ck acc rest fin ck'. split.
  - intro H. apply loop_complete in H. destruct H as [rest' [E HL]].
    apply app_inv_head in E. subst rest'. exact HL.
  - intro HL. apply loop_sound. exact HL.
Qed.

(* the accumulator is only a prefix of the output *)
Theorem check_loop_acc : forall n fuel p i pa ck acc,
  check_loop n fuel p i pa ck acc =
  let '(recs, fin, ck') := check_loop n fuel p i pa ck [] in
  (rev acc ++ recs, fin, ck').
Proof.
  intros n fuel p i pa ck acc.
  destruct (check_loop n fuel p i pa ck []) as [[recs fin] ck'] eqn:H.
  change recs with (rev [] ++ recs) in H.
  apply check_loop_Loop in H. apply loop_sound. exact H.
Qed.

(* ------------------------------------------------------------------ *)
(* small facts about the top-of-loop tests                             *)

Lemma stop_at_none : forall p i,
  max_permutations (p_cfg p) = None -> stop_at p i = false.
Proof.
  intros p i Hmp. unfold stop_at. rewrite Hmp. apply andb_false_r.
Qed.

Lemma ck_at_1 : forall p i pa ck,
  checkpoint_interval (p_cfg p) = Some 1 -> ck_at p i pa ck = Some pa.
Proof.
  intros p i pa ck Hci. unfold ck_at, ci_of. rewrite Hci.
  rewrite Nat.mod_1_r. reflexivity.
Qed.

Lemma stop_at_1_false : forall p i mp,
  checkpoint_interval (p_cfg p) = Some 1 ->
  max_permutations (p_cfg p) = Some mp ->
  stop_at p i = false -> i < mp.
Proof.
  intros p i mp Hci Hmp Hs. unfold stop_at, ci_of in Hs.
  rewrite Hci, Hmp, Nat.mod_1_r in Hs. cbn [Nat.eqb andb] in Hs.
  apply Nat.leb_gt in Hs. exact Hs.
Qed.

Lemma stop_at_true : forall p i,
  stop_at p i = true ->
  Nat.modulo i (ci_of (p_cfg p)) = 0 /\
  exists mp, max_permutations (p_cfg p) = Some mp /\ mp <= i.
Proof.
  intros p i Hs. unfold stop_at in Hs.
  apply andb_true_iff in Hs. destruct Hs as [Hb Hm].
  apply Nat.eqb_eq in Hb. split; [exact Hb|].
  destruct (max_permutations (p_cfg p)) as [mp|]; [|discriminate].
  exists mp. split; [reflexivity|]. apply Nat.leb_le. exact Hm.
Qed.

Lemma stop_at_intro : forall p i mp,
  Nat.modulo i (ci_of (p_cfg p)) = 0 ->
  max_permutations (p_cfg p) = Some mp -> mp <= i ->
  stop_at p i = true.
Proof.
  intros p i mp Hb Hmp Hle. unfold stop_at. rewrite Hmp, Hb.
  cbn [Nat.eqb andb]. apply Nat.leb_le. exact Hle.
Qed.

(* ------------------------------------------------------------------ *)
(* C06: a failure in any iteration fails the run, and only then        *)

Definition all_done (l : list iter_record) : Prop :=
  Forall (fun x => ir_result x = IterDone) l.

Lemma loop_panic : forall fuel p n i pa ck rest pn ck',
  Loop fuel p n i pa ck rest (RunPanic pn) ck' ->
  exists front r, rest = front ++ [r] /\ ir_result r = IterPanic pn /\ all_done front.
Proof.
  intros fuel p n i pa ck rest pn ck' HL.
  remember (RunPanic pn) as fin eqn:Efin.
  induction HL as [ i pa ck
                  | n i pa ck Hs
                  | n i pa ck pn0 Hs Hr
                  | n i pa ck Hs Hr
                  | n i pa ck Hs Hr Hst
                  | n i pa ck pa' rest fin ck' Hs Hr Hst HL IH ];
    try discriminate Efin.
  - injection Efin as E. subst pn0.
    exists [], (rec_of fuel p pa). split; [reflexivity|]. split; [exact Hr | constructor].
  - destruct (IH Efin) as [front [r [E [Hres Hfront]]]].
    exists (rec_of fuel p pa :: front), r. split; [rewrite E; reflexivity|].
    split; [exact Hres | constructor; assumption].
Qed.

Lemma loop_ok : forall fuel p n i pa ck rest ck',
  Loop fuel p n i pa ck rest RunOk ck' -> all_done rest.
Proof.
  intros fuel p n i pa ck rest ck' HL.
  remember RunOk as fin eqn:Efin.
  induction HL as [ i pa ck
                  | n i pa ck Hs
                  | n i pa ck pn0 Hs Hr
                  | n i pa ck Hs Hr
                  | n i pa ck Hs Hr Hst
                  | n i pa ck pa' rest fin ck' Hs Hr Hst HL IH ];
    try discriminate Efin.
  - constructor.
  - constructor; [exact Hr | constructor].
  - constructor; [exact Hr | exact (IH Efin)].
Qed.

Theorem first_failure_is_result : forall ifuel fuel p i pa ck acc recs pn ck',
  check_loop ifuel fuel p i pa ck acc = (recs, RunPanic pn, ck') ->
  exists front r,
    recs = rev acc ++ front ++ [r] /\ ir_result r = IterPanic pn /\
    Forall (fun x => ir_result x = IterDone) front.
Proof.
  intros ifuel fuel p i pa ck acc recs pn ck' H.
  apply loop_complete in H. destruct H as [rest [E HL]].
  apply loop_panic in HL. destruct HL as [front [r [E2 [Hres Hfront]]]].
  exists front, r. subst rest. repeat split; assumption.
Qed.

Theorem ok_means_no_failure : forall ifuel fuel p i pa ck acc recs ck',
  check_loop ifuel fuel p i pa ck acc = (recs, RunOk, ck') ->
  exists rest, recs = rev acc ++ rest /\ Forall (fun x => ir_result x = IterDone) rest.
Proof.
  intros ifuel fuel p i pa ck acc recs ck' H.
  apply loop_complete in H. destruct H as [rest [E HL]].
  exists rest. split; [exact E | eapply loop_ok; exact HL].
Qed.

Corollary check_first_failure_is_result : forall ifuel fuel p recs pn ck',
  check ifuel fuel p = (recs, RunPanic pn, ck') ->
  exists front r,
    recs = front ++ [r] /\ ir_result r = IterPanic pn /\
    Forall (fun x => ir_result x = IterDone) front.
Proof.
  intros ifuel fuel p recs pn ck' H. unfold check in H.
  apply first_failure_is_result in H. exact H.
Qed.

Corollary check_ok_means_no_failure : forall ifuel fuel p recs ck',
  check ifuel fuel p = (recs, RunOk, ck') ->
  Forall (fun x => ir_result x = IterDone) recs.
Proof.
  intros ifuel fuel p recs ck' H. unfold check in H.
  apply ok_means_no_failure in H. destruct H as [rest [E HF]].
  cbn [rev app] in E. subst rest. exact HF.
Qed.

(* the converse reading: a panicking record is the last one, and makes the
   run fail with that panic *)
Theorem failing_record_fails_run : forall ifuel fuel p i pa ck acc rest fin ck' r pn,
  check_loop ifuel fuel p i pa ck acc = (rev acc ++ rest, fin, ck') ->
  In r rest -> ir_result r = IterPanic pn ->
  fin = RunPanic pn /\ exists front, rest = front ++ [r].
Proof.
  intros ifuel fuel p i pa ck acc rest fin ck' r pn H.
  apply check_loop_Loop in H.
  induction H as [ i pa ck
                 | n i pa ck Hs
                 | n i pa ck pn0 Hs Hr
                 | n i pa ck Hs Hr
                 | n i pa ck Hs Hr Hst
                 | n i pa ck pa' rest fin ck' Hs Hr Hst HL IH ];
    intros Hin Hres.
  - destruct Hin.
  - destruct Hin.
  - destruct Hin as [E|[]]. subst r. rewrite Hr in Hres. injection Hres as E. subst pn0.
    split; [reflexivity | exists []; reflexivity].
  - destruct Hin as [E|[]]. subst r. rewrite Hr in Hres. discriminate.
  - destruct Hin as [E|[]]. subst r. rewrite Hr in Hres. discriminate.
  - destruct Hin as [E|Hin].
    + subst r. rewrite Hr in Hres. discriminate.
    + destruct (IH Hin Hres) as [Efin [front E]].
      split; [exact Efin|]. exists (rec_of fuel p pa :: front). rewrite E. reflexivity.
Qed.

(* ------------------------------------------------------------------ *)
(* records form a chain of [step]s                                     *)

Lemma loop_head : forall fuel p n i pa ck rest fin ck' r,
  Loop fuel p n i pa ck rest fin ck' ->
  nth_error rest 0 = Some r -> r = rec_of fuel p pa.
Proof.
  intros fuel p n i pa ck rest fin ck' r HL.
  destruct HL; cbn [nth_error]; intro E; try discriminate E;
    injection E as E; symmetry; exact E.
Qed.

Lemma loop_chain : forall fuel p n i pa ck rest fin ck',
  Loop fuel p n i pa ck rest fin ck' ->
  forall k r1 r2,
    nth_error rest k = Some r1 -> nth_error rest (S k) = Some r2 ->
    ir_result r1 = IterDone /\ step (ir_end r1) = Some (ir_begin r2).
Proof.
  intros fuel p n i pa ck rest fin ck' HL.
  induction HL as [ i pa ck
                  | n i pa ck Hs
                  | n i pa ck pn0 Hs Hr
                  | n i pa ck Hs Hr
                  | n i pa ck Hs Hr Hst
                  | n i pa ck pa' rest fin ck' Hs Hr Hst HL IH ];
    intros k r1 r2 H1 H2;
    try (cbn [nth_error] in H2; destruct k; discriminate H2).
  destruct k as [|k].
  - cbn [nth_error] in H1, H2. injection H1 as E. subst r1.
    eapply loop_head in H2; [|exact HL]. subst r2. rewrite rec_of_begin.
    split; assumption.
  - cbn [nth_error] in H1. change (nth_error rest (S k) = Some r2) in H2.
    exact (IH k r1 r2 H1 H2).
Qed.

Theorem records_chain : forall ifuel fuel p i pa ck acc rest fin ck',
  check_loop ifuel fuel p i pa ck acc = (rev acc ++ rest, fin, ck') ->
  (forall r, nth_error rest 0 = Some r -> ir_begin r = pa) /\
  (forall k r1 r2,
     nth_error rest k = Some r1 -> nth_error rest (S k) = Some r2 ->
     ir_result r1 = IterDone /\ step (ir_end r1) = Some (ir_begin r2)).
Proof.
  intros ifuel fuel p i pa ck acc rest fin ck' H.
  apply check_loop_Loop in H. split.
  - intros r Hr. eapply loop_head in Hr; [|exact H]. subst r. apply rec_of_begin.
  - eapply loop_chain. exact H.
Qed.

Corollary check_records_chain : forall ifuel fuel p recs fin ck',
  check ifuel fuel p = (recs, fin, ck') ->
  (forall r, nth_error recs 0 = Some r -> ir_begin r = initial_path (p_cfg p)) /\
  (forall k r1 r2,
     nth_error recs k = Some r1 -> nth_error recs (S k) = Some r2 ->
     ir_result r1 = IterDone /\ step (ir_end r1) = Some (ir_begin r2)).
Proof.
  intros ifuel fuel p recs fin ck' H. unfold check in H.
  exact (records_chain ifuel fuel p 1 (initial_path (p_cfg p)) None [] recs fin ck' H).
Qed.

(* ------------------------------------------------------------------ *)
(* a normal return: exhaustion or the limit                            *)

Lemma last_cons_cons : forall (A : Type) (a b : A) l d,
  last (a :: b :: l) d = last (b :: l) d.
Proof. reflexivity. Qed.

Lemma loop_ok_cases : forall fuel p n i pa ck rest ck',
  Loop fuel p n i pa ck rest RunOk ck' ->
  (rest <> [] /\ forall d, step (ir_end (last rest d)) = None) \/
  stop_at p (i + length rest) = true.
Proof.
  intros fuel p n i pa ck rest ck' HL.
  remember RunOk as fin eqn:Efin.
  induction HL as [ i pa ck
                  | n i pa ck Hs
                  | n i pa ck pn0 Hs Hr
                  | n i pa ck Hs Hr
                  | n i pa ck Hs Hr Hst
                  | n i pa ck pa' rest fin ck' Hs Hr Hst HL IH ];
    try discriminate Efin.
  - right. cbn [length]. rewrite Nat.add_0_r. exact Hs.
  - left. split; [discriminate|]. intro d. exact Hst.
  - destruct (IH Efin) as [[Hne Hlast]|Hstop].
    + left. split; [discriminate|]. intro d.
      destruct rest as [|r2 rest]; [contradiction Hne; reflexivity|].
      rewrite last_cons_cons. apply Hlast.
    + right. cbn [length]. rewrite Nat.add_succ_r. exact Hstop.
Qed.

(* every RunOk is either exhaustion (the last end path has no successor) or
   the max_permutations test at a boundary counter *)
Theorem run_ok_cases : forall ifuel fuel p i pa ck acc rest ck',
  check_loop ifuel fuel p i pa ck acc = (rev acc ++ rest, RunOk, ck') ->
  (rest <> [] /\ forall d, step (ir_end (last rest d)) = None) \/
  (Nat.modulo (i + length rest) (ci_of (p_cfg p)) = 0 /\
   exists mp, max_permutations (p_cfg p) = Some mp /\ mp <= i + length rest).
Proof.
  intros ifuel fuel p i pa ck acc rest ck' H.
  apply check_loop_Loop in H. apply loop_ok_cases in H.
  destruct H as [H|H]; [left; exact H | right; apply stop_at_true; exact H].
Qed.

Lemma last_app_ne : forall (A : Type) (l1 l2 : list A) d,
  l2 <> [] -> last (l1 ++ l2) d = last l2 d.
Proof.
  intros A l1 l2 d Hne. induction l1 as [|a l1 IH]; [reflexivity|].
  cbn [app]. destruct (l1 ++ l2) eqn:E.
  - apply app_eq_nil in E. destruct E as [_ E]. contradiction.
  - rewrite last_cons_cons. exact IH.
Qed.

(* without max_permutations, a normal return means the exploration was
   exhausted: the end path of the last record has no successor *)
Theorem run_ok_complete : forall ifuel fuel p i pa ck acc recs ck',
  check_loop ifuel fuel p i pa ck acc = (recs, RunOk, ck') ->
  max_permutations (p_cfg p) = None ->
  recs <> rev acc ->
  forall d, step (ir_end (last recs d)) = None.
Proof.
  intros ifuel fuel p i pa ck acc recs ck' H Hmp Hne d.
  destruct (loop_complete _ _ _ _ _ _ _ _ _ _ H) as [rest [E HL]].
  apply loop_ok_cases in HL. destruct HL as [[Hrest Hlast]|Hstop].
  - subst recs. rewrite last_app_ne by exact Hrest. apply Hlast.
  - rewrite stop_at_none in Hstop by exact Hmp. discriminate.
Qed.

Corollary check_run_ok_complete : forall ifuel fuel p recs ck',
  check ifuel fuel p = (recs, RunOk, ck') ->
  max_permutations (p_cfg p) = None ->
  recs <> [] /\ forall d, step (ir_end (last recs d)) = None.
Proof.
  intros ifuel fuel p recs ck' H Hmp. unfold check in H.
  change recs with (rev [] ++ recs) in H.
  apply check_loop_Loop in H. apply loop_ok_cases in H.
  destruct H as [H|H]; [exact H|].
  rewrite stop_at_none in H by exact Hmp. discriminate.
Qed.

(* ------------------------------------------------------------------ *)
(* C16: a record is a function of its begin path                       *)

Lemma loop_record : forall fuel p n i pa ck rest fin ck' r,
  Loop fuel p n i pa ck rest fin ck' ->
  In r rest -> r = rec_of fuel p (ir_begin r).
Proof.
  intros fuel p n i pa ck rest fin ck' r HL.
  induction HL as [ i pa ck
                  | n i pa ck Hs
                  | n i pa ck pn0 Hs Hr
                  | n i pa ck Hs Hr
                  | n i pa ck Hs Hr Hst
                  | n i pa ck pa' rest fin ck' Hs Hr Hst HL IH ];
    intro Hin;
    try (destruct Hin as [E|[]]; subst r; rewrite rec_of_begin; reflexivity);
    try (destruct Hin; fail).
  destruct Hin as [E|Hin].
  - subst r. rewrite rec_of_begin. reflexivity.
  - exact (IH Hin).
Qed.

Theorem record_determined : forall ifuel fuel p i pa ck acc rest fin ck' r,
  check_loop ifuel fuel p i pa ck acc = (rev acc ++ rest, fin, ck') ->
  In r rest ->
  r = (let '(e, res) := iteration fuel p (ir_begin r) in
       mkIter (ir_begin r) (e_path e) (rev (e_log e)) res).
Proof.
  intros ifuel fuel p i pa ck acc rest fin ck' r H Hin.
  apply check_loop_Loop in H. eapply loop_record; eassumption.
Qed.

(* two records (of the same program and model fuel) of any two runs that
   begin at the same path are equal *)
Theorem records_agree :
  forall fuel p ifuel1 i1 pa1 ck1 acc1 rest1 fin1 ck1'
         ifuel2 i2 pa2 ck2 acc2 rest2 fin2 ck2' r1 r2,
  check_loop ifuel1 fuel p i1 pa1 ck1 acc1 = (rev acc1 ++ rest1, fin1, ck1') ->
  check_loop ifuel2 fuel p i2 pa2 ck2 acc2 = (rev acc2 ++ rest2, fin2, ck2') ->
  In r1 rest1 -> In r2 rest2 ->
  ir_begin r1 = ir_begin r2 ->
  ir_end r1 = ir_end r2 /\ ir_log r1 = ir_log r2 /\ ir_result r1 = ir_result r2.
Proof.
  intros fuel p ifuel1 i1 pa1 ck1 acc1 rest1 fin1 ck1'
         ifuel2 i2 pa2 ck2 acc2 rest2 fin2 ck2' r1 r2 H1 H2 Hin1 Hin2 Hb.
  apply check_loop_Loop in H1. apply check_loop_Loop in H2.
  pose proof (loop_record _ _ _ _ _ _ _ _ _ _ H1 Hin1) as E1.
  pose proof (loop_record _ _ _ _ _ _ _ _ _ _ H2 Hin2) as E2.
  rewrite Hb in E1. rewrite <- E2 in E1. subst r1. repeat split.
Qed.

(* ------------------------------------------------------------------ *)
(* C13: deterministic and resumable                                    *)

(* without max_permutations the records and the outcome do not depend on the
   iteration counter nor on the checkpoint content *)
Lemma loop_indep : forall fuel p, max_permutations (p_cfg p) = None ->
  forall n i pa ck rest fin ck',
  Loop fuel p n i pa ck rest fin ck' ->
  forall i2 ck2, exists ck3, Loop fuel p n i2 pa ck2 rest fin ck3.
Proof.
  intros fuel p Hmp n i pa ck rest fin ck' HL.
  induction HL as [ i pa ck
                  | n i pa ck Hs
                  | n i pa ck pn0 Hs Hr
                  | n i pa ck Hs Hr
                  | n i pa ck Hs Hr Hst
                  | n i pa ck pa' rest fin ck' Hs Hr Hst HL IH ];
    intros i2 ck2.
  - eexists. constructor.
  - rewrite stop_at_none in Hs by exact Hmp. discriminate.
  - eexists. apply L_panic; [apply stop_at_none; exact Hmp | exact Hr].
  - eexists. apply L_ifuel; [apply stop_at_none; exact Hmp | exact Hr].
  - eexists. apply L_last; [apply stop_at_none; exact Hmp | exact Hr | exact Hst].
  - destruct (IH (S i2) (ck_at p i2 pa ck2)) as [ck3 HL3].
    exists ck3. eapply L_next; [apply stop_at_none; exact Hmp | exact Hr | exact Hst | exact HL3].
Qed.

Lemma loop_resume : forall fuel p, max_permutations (p_cfg p) = None ->
  forall n i pa ck rest fin ck',
  Loop fuel p n i pa ck rest fin ck' ->
  forall k r, nth_error rest k = Some r ->
  forall i2 ck2, exists ck3,
    Loop fuel p (n - k) i2 (ir_begin r) ck2 (skipn k rest) fin ck3.
Proof.
  intros fuel p Hmp n i pa ck rest fin ck' HL.
  induction HL as [ i pa ck
                  | n i pa ck Hs
                  | n i pa ck pn0 Hs Hr
                  | n i pa ck Hs Hr
                  | n i pa ck Hs Hr Hst
                  | n i pa ck pa' rest fin ck' Hs Hr Hst HL IH ];
    intros k r Hk i2 ck2.
  - destruct k; discriminate Hk.
  - destruct k; discriminate Hk.
  - destruct k as [|k]; [|destruct k; discriminate Hk].
    injection Hk as E. subst r. rewrite rec_of_begin. cbn [skipn Nat.sub].
    eapply (loop_indep fuel p Hmp (S n) i pa ck). apply L_panic; eassumption.
  - destruct k as [|k]; [|destruct k; discriminate Hk].
    injection Hk as E. subst r. rewrite rec_of_begin. cbn [skipn Nat.sub].
    eapply (loop_indep fuel p Hmp (S n) i pa ck). apply L_ifuel; eassumption.
  - destruct k as [|k]; [|destruct k; discriminate Hk].
    injection Hk as E. subst r. rewrite rec_of_begin. cbn [skipn Nat.sub].
    eapply (loop_indep fuel p Hmp (S n) i pa ck). apply L_last; eassumption.
  - destruct k as [|k].
    + injection Hk as E. subst r. rewrite rec_of_begin. cbn [skipn Nat.sub].
      eapply (loop_indep fuel p Hmp (S n) i pa ck). eapply L_next; eassumption.
    + cbn [nth_error] in Hk. cbn [skipn Nat.sub]. exact (IH k r Hk i2 ck2).
Qed.

(* more loop fuel does not change a run that did not run out of fuel *)
Lemma loop_fuel_mono : forall fuel p n i pa ck rest fin ck',
  Loop fuel p n i pa ck rest fin ck' -> fin <> RunFuel ->
  forall m, n <= m -> Loop fuel p m i pa ck rest fin ck'.
Proof.
  intros fuel p n i pa ck rest fin ck' HL.
  induction HL as [ i pa ck
                  | n i pa ck Hs
                  | n i pa ck pn0 Hs Hr
                  | n i pa ck Hs Hr
                  | n i pa ck Hs Hr Hst
                  | n i pa ck pa' rest fin ck' Hs Hr Hst HL IH ];
    intros Hfin m Hle.
  - contradiction Hfin; reflexivity.
  - destruct m as [|m]; [lia|]. apply L_limit; assumption.
  - destruct m as [|m]; [lia|]. apply L_panic; assumption.
  - contradiction Hfin; reflexivity.
  - destruct m as [|m]; [lia|]. apply L_last; assumption.
  - destruct m as [|m]; [lia|].
    eapply L_next; [exact Hs | exact Hr | exact Hst |].
    apply IH; [exact Hfin | lia].
Qed.

Theorem check_loop_fuel_mono : forall ifuel fuel p i pa ck acc recs fin ck',
  check_loop ifuel fuel p i pa ck acc = (recs, fin, ck') -> fin <> RunFuel ->
  forall ifuel2, ifuel <= ifuel2 ->
  check_loop ifuel2 fuel p i pa ck acc = (recs, fin, ck').
Proof.
  intros ifuel fuel p i pa ck acc recs fin ck' H Hfin ifuel2 Hle.
  apply loop_complete in H. destruct H as [rest [E HL]]. subst recs.
  apply loop_sound. eapply loop_fuel_mono; eassumption.
Qed.

(* the general form: no hypothesis on [fin] *)
Theorem resume_is_suffix_gen : forall fuel p, max_permutations (p_cfg p) = None ->
  forall ifuel i pa ck recs fin ck' k r,
    check_loop ifuel fuel p i pa ck [] = (recs, fin, ck') ->
    nth_error recs k = Some r ->
    forall i2 ck2, exists ck3,
      check_loop (ifuel - k) fuel p i2 (ir_begin r) ck2 [] = (skipn k recs, fin, ck3).
Proof.
  intros fuel p Hmp ifuel i pa ck recs fin ck' k r H Hk i2 ck2.
  change recs with (rev [] ++ recs) in H. apply check_loop_Loop in H.
  destruct (loop_resume fuel p Hmp _ _ _ _ _ _ _ H k r Hk i2 ck2) as [ck3 HL].
  exists ck3. exact (loop_sound _ _ _ _ _ _ _ _ _ HL []).
Qed.

Theorem resume_is_suffix : forall fuel p, max_permutations (p_cfg p) = None ->
  forall ifuel i pa ck recs fin ck' k r,
    check_loop ifuel fuel p i pa ck [] = (recs, fin, ck') -> fin <> RunFuel ->
    nth_error recs k = Some r ->
    forall i2 ck2, exists ck3,
      check_loop (ifuel - k) fuel p i2 (ir_begin r) ck2 [] = (skipn k recs, fin, ck3).
Proof.
  intros fuel p Hmp ifuel i pa ck recs fin ck' k r H _ Hk i2 ck2.
  exact (resume_is_suffix_gen fuel p Hmp ifuel i pa ck recs fin ck' k r H Hk i2 ck2).
Qed.

Theorem resume_is_suffix_ge : forall fuel p, max_permutations (p_cfg p) = None ->
  forall ifuel i pa ck recs fin ck' k r,
    check_loop ifuel fuel p i pa ck [] = (recs, fin, ck') -> fin <> RunFuel ->
    nth_error recs k = Some r ->
    forall ifuel2 i2 ck2, ifuel - k <= ifuel2 -> exists ck3,
      check_loop ifuel2 fuel p i2 (ir_begin r) ck2 [] = (skipn k recs, fin, ck3).
Proof.
  intros fuel p Hmp ifuel i pa ck recs fin ck' k r H Hfin Hk ifuel2 i2 ck2 Hle.
  destruct (resume_is_suffix_gen fuel p Hmp ifuel i pa ck recs fin ck' k r H Hk i2 ck2) as [ck3 H3].
  exists ck3. exact (check_loop_fuel_mono _ _ _ _ _ _ _ _ _ _ H3 Hfin _ Hle).
Qed.

(* resuming [check] through [check_from] at the begin path of iteration k *)
Corollary check_from_is_suffix : forall fuel p, max_permutations (p_cfg p) = None ->
  forall ifuel recs fin ck' k r,
    check ifuel fuel p = (recs, fin, ck') ->
    nth_error recs k = Some r ->
    exists ck3, check_from (ifuel - k) fuel p (ir_begin r) = (skipn k recs, fin, ck3).
Proof.
  intros fuel p Hmp ifuel recs fin ck' k r H Hk. unfold check in H. unfold check_from.
  exact (resume_is_suffix_gen fuel p Hmp ifuel 1 (initial_path (p_cfg p)) None recs fin ck' k r H Hk
           1 (Some (ir_begin r))).
Qed.

(* determinism: check_loop is a function; stated for completeness *)
Theorem check_deterministic : forall ifuel fuel p r1 r2,
  check ifuel fuel p = r1 -> check ifuel fuel p = r2 -> r1 = r2.
Proof. intros ifuel fuel p r1 r2 H1 H2. rewrite <- H1, <- H2. reflexivity. Qed.

(* ------------------------------------------------------------------ *)
(* checkpoints with interval 1                                         *)

(* a call that produces no record: out of loop fuel, or the limit *)
Lemma loop_nil : forall fuel p n i pa ck fin ck',
  Loop fuel p n i pa ck [] fin ck' ->
  (fin = RunFuel /\ ck' = ck) \/
  (fin = RunOk /\ stop_at p i = true /\ ck' = ck_at p i pa ck).
Proof.
  intros fuel p n i pa ck fin ck' HL.
  inversion HL; subst; [left | right]; repeat split; assumption.
Qed.

Lemma loop_checkpoint : forall fuel p, checkpoint_interval (p_cfg p) = Some 1 ->
  forall n i pa ck rest fin ck',
  Loop fuel p n i pa ck rest fin ck' ->
  forall c d, ck' = Some c -> rest <> [] ->
  (fin = RunOk -> step (ir_end (last rest d)) = None) ->
  c = ir_begin (last rest d).
Proof.
  intros fuel p Hci n i pa ck rest fin ck' HL.
  induction HL as [ i pa ck
                  | n i pa ck Hs
                  | n i pa ck pn0 Hs Hr
                  | n i pa ck Hs Hr
                  | n i pa ck Hs Hr Hst
                  | n i pa ck pa' rest fin ck' Hs Hr Hst HL IH ];
    intros c d Eck Hne Hok.
  - contradiction Hne; reflexivity.
  - contradiction Hne; reflexivity.
  - rewrite ck_at_1 in Eck by exact Hci. injection Eck as E. subst c.
    cbn [last]. rewrite rec_of_begin. reflexivity.
  - rewrite ck_at_1 in Eck by exact Hci. injection Eck as E. subst c.
    cbn [last]. rewrite rec_of_begin. reflexivity.
  - rewrite ck_at_1 in Eck by exact Hci. injection Eck as E. subst c.
    cbn [last]. rewrite rec_of_begin. reflexivity.
  - destruct rest as [|r2 rest].
    + (* the next call produced no record: out of loop fuel, or the limit *)
      cbn [last] in Hok |- *. rewrite rec_of_begin.
      destruct (loop_nil _ _ _ _ _ _ _ _ HL) as [[_ Eck']|[Efin _]].
      * rewrite Eck', ck_at_1 in Eck by exact Hci. injection Eck as E. symmetry. exact E.
      * rewrite Hst in Hok. specialize (Hok Efin). discriminate Hok.
    + rewrite last_cons_cons in Hok |- *.
      apply IH; [exact Eck | discriminate | exact Hok].
Qed.

Theorem checkpoint_is_begin_of_boundary : forall fuel p,
  checkpoint_interval (p_cfg p) = Some 1 ->
  forall ifuel i pa ck acc rest fin c d,
    check_loop ifuel fuel p i pa ck acc = (rev acc ++ rest, fin, Some c) ->
    rest <> [] ->
    (fin = RunOk -> step (ir_end (last rest d)) = None) ->
    c = ir_begin (last rest d).
Proof.
  intros fuel p Hci ifuel i pa ck acc rest fin c d H Hne Hok.
  apply check_loop_Loop in H.
  exact (loop_checkpoint fuel p Hci _ _ _ _ _ _ _ H c d eq_refl Hne Hok).
Qed.

Corollary check_checkpoint_is_begin : forall fuel p,
  checkpoint_interval (p_cfg p) = Some 1 ->
  forall ifuel recs fin c d,
    check ifuel fuel p = (recs, fin, Some c) ->
    recs <> [] ->
    (fin = RunOk -> step (ir_end (last recs d)) = None) ->
    c = ir_begin (last recs d).
Proof.
  intros fuel p Hci ifuel recs fin c d H Hne Hok. unfold check in H.
  exact (checkpoint_is_begin_of_boundary fuel p Hci ifuel 1 (initial_path (p_cfg p)) None []
           recs fin c d H Hne Hok).
Qed.

(* the same for a failing run: no side condition *)
Corollary checkpoint_of_failure : forall fuel p,
  checkpoint_interval (p_cfg p) = Some 1 ->
  forall ifuel i pa ck acc rest pn c d,
    check_loop ifuel fuel p i pa ck acc = (rev acc ++ rest, RunPanic pn, Some c) ->
    c = ir_begin (last rest d) /\ ir_result (last rest d) = IterPanic pn.
Proof.
  intros fuel p Hci ifuel i pa ck acc rest pn c d H.
  pose proof H as H0.
  apply check_loop_Loop in H0. apply loop_panic in H0.
  destruct H0 as [front [r [E [Hres _]]]].
  assert (Hne : rest <> []).
  { rewrite E. intro E0. apply app_eq_nil in E0. destruct E0 as [_ E0]. discriminate. }
  split.
  - apply (checkpoint_is_begin_of_boundary fuel p Hci _ _ _ _ _ _ _ _ d H Hne). discriminate.
  - rewrite E. rewrite last_app_ne by discriminate. exact Hres.
Qed.

(* with interval 1 the checkpoint is always written *)
Lemma loop_checkpoint_some : forall fuel p, checkpoint_interval (p_cfg p) = Some 1 ->
  forall n i pa ck rest fin ck',
  Loop fuel p n i pa ck rest fin ck' -> rest <> [] -> exists c, ck' = Some c.
Proof.
  intros fuel p Hci n i pa ck rest fin ck' HL.
  induction HL as [ i pa ck
                  | n i pa ck Hs
                  | n i pa ck pn0 Hs Hr
                  | n i pa ck Hs Hr
                  | n i pa ck Hs Hr Hst
                  | n i pa ck pa' rest fin ck' Hs Hr Hst HL IH ];
    intro Hne;
    try (contradiction Hne; reflexivity);
    try (rewrite ck_at_1 by exact Hci; eexists; reflexivity).
  destruct rest as [|r2 rest].
  - inversion HL; subst; rewrite ck_at_1 by exact Hci; eexists; reflexivity.
  - apply IH. discriminate.
Qed.

(* the counter of the k-th new iteration is i + k, and it passed the limit test *)
Lemma loop_last_not_stopped : forall fuel p n i pa ck rest fin ck',
  Loop fuel p n i pa ck rest fin ck' -> rest <> [] ->
  stop_at p (i + length rest - 1) = false.
Proof.
  intros fuel p n i pa ck rest fin ck' HL.
  induction HL as [ i pa ck
                  | n i pa ck Hs
                  | n i pa ck pn0 Hs Hr
                  | n i pa ck Hs Hr
                  | n i pa ck Hs Hr Hst
                  | n i pa ck pa' rest fin ck' Hs Hr Hst HL IH ];
    intro Hne;
    try (contradiction Hne; reflexivity);
    try (cbn [length]; replace (i + 1 - 1) with i by lia; exact Hs).
  destruct rest as [|r2 rest].
  - cbn [length]. replace (i + 1 - 1) with i by lia. exact Hs.
  - replace (i + length (rec_of fuel p pa :: r2 :: rest) - 1)
      with (S i + length (r2 :: rest) - 1) by (cbn [length]; lia).
    apply IH. discriminate.
Qed.

Theorem failing_checkpoint_first : forall fuel p,
  checkpoint_interval (p_cfg p) = Some 1 ->
  forall ifuel i pa ck acc rest pn c,
    1 <= i ->
    check_loop ifuel fuel p i pa ck acc = (rev acc ++ rest, RunPanic pn, Some c) ->
    forall n, exists r,
      check_from (S n) fuel p c = ([r], RunPanic pn, Some c) /\
      ir_result r = IterPanic pn /\
      (forall d, r = last rest d).
Proof.
  intros fuel p Hci ifuel i pa ck acc rest pn c Hi H n.
  pose proof H as HL. apply check_loop_Loop in HL.
  pose proof (loop_panic _ _ _ _ _ _ _ _ _ HL) as [front [r [E [Hres _]]]].
  assert (Hne : rest <> []).
  { rewrite E. intro E0. apply app_eq_nil in E0. destruct E0 as [_ E0]. discriminate. }
  assert (Hlast : forall d, last rest d = r).
  { intro d. rewrite E. rewrite last_app_ne by discriminate. reflexivity. }
  pose proof (checkpoint_of_failure fuel p Hci _ _ _ _ _ _ _ _ r H) as [Ec _].
  rewrite Hlast in Ec.
  assert (Hin : In r rest).
  { rewrite E. apply in_or_app. right. left. reflexivity. }
  pose proof (loop_record _ _ _ _ _ _ _ _ _ _ HL Hin) as Er. rewrite <- Ec in Er.
  assert (Hs1 : stop_at p 1 = false).
  { pose proof (loop_last_not_stopped _ _ _ _ _ _ _ _ _ HL Hne) as Hs.
    destruct (max_permutations (p_cfg p)) as [mp|] eqn:Hmp.
    - apply (stop_at_1_false _ _ _ Hci Hmp) in Hs.
      unfold stop_at. rewrite Hmp. apply andb_false_iff. right.
      apply Nat.leb_gt.
      assert (0 < length rest) by (destruct rest; [contradiction Hne; reflexivity | cbn; lia]).
      lia.
    - apply stop_at_none. exact Hmp. }
  exists r. split; [|split].
  - unfold check_from. rewrite check_loop_S, Hs1. cbv zeta.
    rewrite <- Er, Hres. rewrite ck_at_1 by exact Hci. reflexivity.
  - exact Hres.
  - intro d. symmetry. apply Hlast.
Qed.

Corollary failing_checkpoint_first_check : forall fuel p,
  checkpoint_interval (p_cfg p) = Some 1 ->
  forall ifuel recs pn c,
    check ifuel fuel p = (recs, RunPanic pn, Some c) ->
    forall n, exists r,
      check_from (S n) fuel p c = ([r], RunPanic pn, Some c) /\
      ir_result r = IterPanic pn /\
      (forall d, r = last recs d).
Proof.
  intros fuel p Hci ifuel recs pn c H n. unfold check in H.
  exact (failing_checkpoint_first fuel p Hci ifuel 1 (initial_path (p_cfg p)) None []
           recs pn c (le_n 1) H n).
Qed.

(* in the weaker shape requested *)
Corollary failing_checkpoint_first_weak : forall fuel p,
  checkpoint_interval (p_cfg p) = Some 1 ->
  forall ifuel recs pn c,
    check ifuel fuel p = (recs, RunPanic pn, Some c) ->
    forall n, exists r rest fin ck4,
      check_from (S n) fuel p c = (r :: rest, fin, ck4) /\ ir_result r = IterPanic pn.
Proof.
  intros fuel p Hci ifuel recs pn c H n.
  destruct (failing_checkpoint_first_check fuel p Hci ifuel recs pn c H n) as [r [H1 [H2 _]]].
  exists r, [], (RunPanic pn), (Some c). split; assumption.
Qed.

(* ------------------------------------------------------------------ *)
(* C19: limits                                                         *)

(* stopping because of the limit is a normal return: when the counter is at
   a boundary and has reached max_permutations, the loop returns RunOk
   without running anything (and has stored the current path) *)
Theorem limit_stop_is_ok : forall n fuel p i pa ck acc mp,
  max_permutations (p_cfg p) = Some mp ->
  Nat.modulo i (ci_of (p_cfg p)) = 0 -> mp <= i ->
  check_loop (S n) fuel p i pa ck acc = (rev acc, RunOk, Some pa).
Proof.
  intros n fuel p i pa ck acc mp Hmp Hb Hle.
  rewrite check_loop_S, (stop_at_intro p i mp Hb Hmp Hle).
  unfold ck_at. rewrite Hb. reflexivity.
Qed.

Lemma loop_limit : forall fuel p mp, max_permutations (p_cfg p) = Some mp ->
  forall n i pa ck rest fin ck',
  Loop fuel p n i pa ck rest fin ck' ->
  forall b, i <= b -> Nat.modulo b (ci_of (p_cfg p)) = 0 -> mp <= b ->
  length rest <= b - i.
Proof.
  intros fuel p mp Hmp n i pa ck rest fin ck' HL.
  assert (Hlt : forall i b, stop_at p i = false -> i <= b ->
                Nat.modulo b (ci_of (p_cfg p)) = 0 -> mp <= b -> i < b).
  { intros i0 b Hs Hib Hb Hle.
    destruct (Nat.eq_dec i0 b) as [E|Hneq]; [|lia].
    subst i0. rewrite (stop_at_intro p b mp Hb Hmp Hle) in Hs. discriminate. }
  induction HL as [ i pa ck
                  | n i pa ck Hs
                  | n i pa ck pn0 Hs Hr
                  | n i pa ck Hs Hr
                  | n i pa ck Hs Hr Hst
                  | n i pa ck pa' rest fin ck' Hs Hr Hst HL IH ];
    intros b Hib Hb Hle; cbn [length]; try lia;
    pose proof (Hlt i b Hs Hib Hb Hle) as Hi; try lia.
  assert (length rest <= b - S i) by (apply IH; [lia | exact Hb | exact Hle]).
  lia.
Qed.

(* No iteration is started at a boundary counter >= max_permutations: if [b]
   is such a counter (a multiple of the checkpoint interval, at least mp, not
   before the current counter i), at most [b - i] new iterations run, i.e.
   only the counters i .. b-1 *)
Theorem max_permutations_stops : forall fuel p mp,
  max_permutations (p_cfg p) = Some mp ->
  forall ifuel i pa ck acc recs fin ck',
    check_loop ifuel fuel p i pa ck acc = (recs, fin, ck') ->
    forall b, i <= b -> Nat.modulo b (ci_of (p_cfg p)) = 0 -> mp <= b ->
    length recs <= length acc + (b - i).
Proof.
  intros fuel p mp Hmp ifuel i pa ck acc recs fin ck' H b Hib Hb Hle.
  apply loop_complete in H. destruct H as [rest [E HL]]. subst recs.
  rewrite app_length, rev_length.
  pose proof (loop_limit fuel p mp Hmp _ _ _ _ _ _ _ HL b Hib Hb Hle). lia.
Qed.

Corollary max_permutations_stops_some : forall fuel p mp c,
  max_permutations (p_cfg p) = Some mp ->
  checkpoint_interval (p_cfg p) = Some c ->
  forall ifuel i pa ck acc recs fin ck',
    check_loop ifuel fuel p i pa ck acc = (recs, fin, ck') ->
    forall b, i <= b -> Nat.modulo b c = 0 -> mp <= b ->
    length recs <= length acc + (b - i).
Proof.
  intros fuel p mp c Hmp Hci ifuel i pa ck acc recs fin ck' H b Hib Hb Hle.
  apply (max_permutations_stops fuel p mp Hmp _ _ _ _ _ _ _ _ H b Hib); [|exact Hle].
  unfold ci_of. rewrite Hci. exact Hb.
Qed.

(* closed form: such a boundary exists as soon as the interval is positive *)
Corollary max_permutations_bound : forall fuel p mp c,
  max_permutations (p_cfg p) = Some mp ->
  checkpoint_interval (p_cfg p) = Some c -> c > 0 ->
  forall ifuel i pa ck acc recs fin ck',
    check_loop ifuel fuel p i pa ck acc = (recs, fin, ck') ->
    length recs <= length acc + (c * Nat.max i mp - i).
Proof.
  intros fuel p mp c Hmp Hci Hc ifuel i pa ck acc recs fin ck' H.
  apply (max_permutations_stops_some fuel p mp c Hmp Hci _ _ _ _ _ _ _ _ H).
  - nia.
  - rewrite Nat.mul_comm. apply Nat.mod_mul. lia.
  - nia.
Qed.

(* with interval 1 the bound is exact: check runs at most mp - 1 iterations *)
Corollary max_permutations_interval_1 : forall fuel p mp,
  max_permutations (p_cfg p) = Some mp ->
  checkpoint_interval (p_cfg p) = Some 1 ->
  forall ifuel recs fin ck',
    check ifuel fuel p = (recs, fin, ck') -> length recs <= mp - 1.
Proof.
  intros fuel p mp Hmp Hci ifuel recs fin ck' H. unfold check in H.
  pose proof (max_permutations_stops_some fuel p mp 1 Hmp Hci _ _ _ _ _ _ _ _ H
                (Nat.max 1 mp)) as Hb.
  cbn [length] in Hb.
  assert (length recs <= 0 + (Nat.max 1 mp - 1)).
  { apply Hb; [lia | apply Nat.mod_1_r | lia]. }
  lia.
Qed.

Print Assumptions first_failure_is_result.
Print Assumptions resume_is_suffix.
Print Assumptions init_exec_depends_on_path_only.
Print Assumptions records_chain.
Print Assumptions checkpoint_is_begin_of_boundary.
Print Assumptions failing_checkpoint_first.
Print Assumptions max_permutations_stops.
Print Assumptions record_determined.
Print Assumptions run_ok_complete.
