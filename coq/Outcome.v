(* Observable outcomes of the model L and of the reference semantics R in one
   shape, so that the completeness / soundness statements can be written and
   refutation witnesses computed. Definitions only. *)
Require Import LV.Base LV.Path LV.Prog LV.Objects LV.Exec LV.Check LV.Ref.

Definition result_eqb (a b : result) : bool :=
  match a, b with
  | RUnit, RUnit | RX, RX | REmpty, REmpty | RDisc, RDisc => true
  | RVal x, RVal y | ROk x, ROk y | RErr x, RErr y => N.eqb x y
  | RBool x, RBool y => Bool.eqb x y
  | _, _ => false
  end.

Fixpoint list_eqb {A} (eqb : A -> A -> bool) (l1 l2 : list A) : bool :=
  match l1, l2 with
  | [], [] => true
  | x :: t1, y :: t2 => eqb x y && list_eqb eqb t1 t2
  | _, _ => false
  end.

Definition pcres_eqb (a b : nat * result) : bool :=
  Nat.eqb (fst a) (fst b) && result_eqb (snd a) (snd b).

(* one outcome: for every body, its (pc, result) pairs in program order *)
Definition outcome := list (list (nat * result)).
Definition outcome_eqb : outcome -> outcome -> bool := list_eqb (list_eqb pcres_eqb).

Definition body_log (log : list logline) (b : nat) : list (nat * result) :=
  flat_map (fun l => match l with
                     | LOp b' pc r => if Nat.eqb b b' then [(pc, r)] else []
                     | _ => []
                     end) log.

(* the outcome of one iteration of L *)
Definition l_outcome (nbodies : nat) (r : iter_record) : outcome :=
  map (body_log (ir_log r)) (seq 0 nbodies).

(* the normally finished iterations of a whole run *)
Definition explored (p : prog) (recs : list iter_record) : list outcome :=
  flat_map (fun r => match ir_result r with
                     | IterDone => [l_outcome (length (p_bodies p)) r]
                     | _ => []
                     end) recs.

Definition mem_outcome (o : outcome) (l : list outcome) : bool := existsb (outcome_eqb o) l.

(* the finished, leak-free outcomes R allows *)
Definition ref_finished (outs : list routcome) : list outcome :=
  flat_map (fun o => match o with OFinished logs None => [logs] | _ => [] end) outs.

Definition ref_can_deadlock (outs : list routcome) : bool :=
  existsb (fun o => match o with ODeadlock => true | _ => false end) outs.

Definition run_reports_deadlock (fin : run_end) : bool :=
  match fin with RunPanic (PanicDeadlock _) => true | _ => false end.
