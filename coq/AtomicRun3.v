(* AtomicRun3: the REPLAY hypothesis of AtomicRun2.RunOK2, discharged from the
   decision stack as far as it can be without a determinism theorem.

   1. "traversed" (pos = length of the stack) is kept by every micro-operation
      ([exec_micro_trv], the pass of ExecFacts.exec_micro_path_ok for the
      relation trv) and along executions ([steps_traversed]).
   2. On a traversed path a load pushes a fresh entry that records exactly its
      candidate list and answers the first element ([fresh_load_is_candidate]).
      Hence the replay clause holds at every access of every run that starts on a
      traversed path -- the first iteration of every program
      ([first_iteration_goodAt], [first_iteration_coherence]: only the ring
      hypothesis RunOK3 is left) -- and, in any iteration, from the point where
      the stored prefix has been consumed ([after_prefix_ReplayAt]).
   3. For a replayed entry the clause follows from [Recorded]: the entry under
      the cursor is a Load entry whose values are the candidate list of this
      access and whose position is inside it ([recorded_ReplayAt],
      [recorded_run_goodAt]).  Facts for the general proof: a Load entry is never
      modified during an iteration ([steps_load_entry_fixed]); Path::step keeps
      the values of every Load entry it keeps and advances the position of the
      last one inside the list ([step_load_entry]).
   4. NOT PROVED in general: RecordedOK for every path of the exploration.  It
      needs "an iteration is a function of the consumed prefix of the stack":
      if pb = step (end path of the run on pa) then, up to the advanced entry,
      the run on pb goes through the same states (all components but e_path)
      as the run on pa.  That is a two-run simulation over all micro-operations,
      which additionally needs (i) every a_path_id stored in an object is below
      pos of the path, (ii) backtrack is idempotent on entries that already
      carry its marks.  None of the three exists in the development.
      Instead: a sound CHECKER.  [explore_rec] runs the whole exploration and
      checks [Recorded] at every replayed load; [explore_rec_sound] /
      [explored_run_goodAt]: if it answers (_, _, true, true) then for EVERY path
      of the exploration ([Explored]; [check_records_Explored]: the begin path of
      every record of Builder::check is one) and every state of its iteration,
      GoodAt a e holds given ring room.  Checked by vm_compute for two programs
      ([p_sl_checked]: 25 iterations, 28 replayed loads; [p_mp_checked]: 72 / 181).

   Nothing is admitted; Print Assumptions at the end: all closed. *)
From Coq Require Import List Arith Lia Bool NArith.
Import ListNotations.
From LV Require Import Base VV VVFacts Path PathSpec PathApi Prog Objects Exec Atomic Ops Check
  CheckFacts SyncFacts ExecFacts SyncMono NotifyFacts ClockFacts AtomicFacts AtomicCoherence
  AtomicCoRR AtomicClosure AtomicBridge AtomicRun AtomicRun2.

(* ================================================================== *)
(* 1. "traversed" is kept by every micro-operation                      *)
(* ================================================================== *)

Definition trv (p p' : path) : Prop := is_traversed p = true -> is_traversed p' = true.

Lemma trv_refl p : trv p p.
Proof. intros H. exact H. Qed.
Lemma trv_trans p q r : trv p q -> trv q r -> trv p r.
Proof. unfold trv. auto. Qed.

Lemma trv_same p p' : pos p' = pos p -> branches p' = branches p -> trv p p'.
Proof. intros H1 H2. unfold trv, is_traversed. rewrite H1, H2. auto. Qed.

Lemma explore_state_trv p p' : explore_state p = POk p' -> trv p p'.
Proof.
  unfold explore_state. intros H. destruct (skipping p); [injection H as <-; apply trv_refl|].
  destruct (exploring p); [discriminate|]. injection H as <-. apply trv_same; reflexivity.
Qed.

Lemma critical_trv p p' : critical p = POk p' -> trv p p'.
Proof.
  unfold critical. intros H. destruct (skipping p); [injection H as <-; apply trv_refl|].
  destruct (exploring p); [|discriminate]. injection H as <-. apply trv_same; reflexivity.
Qed.

Lemma skip_branch_trv p : trv p (skip_branch p).
Proof. apply trv_same; reflexivity. Qed.

Lemma traversed_push p x :
  is_traversed p = true ->
  is_traversed (set_pos (set_branches p (branches p ++ [x])) (S (pos p))) = true.
Proof.
  unfold is_traversed. cbn [set_pos set_branches pos branches]. intros H. apply Nat.eqb_eq in H.
  apply Nat.eqb_eq. rewrite app_length. cbn [length]. lia.
Qed.

Lemma branch_spurious_trv p p' b : branch_spurious p = POk (p', b) -> trv p p'.
Proof.
  intros H Ht. destruct (branch_spurious_cases _ _ _ H) as [(Hf & _)|(_ & _ & ->)]; [congruence|].
  apply traversed_push, Ht.
Qed.

Lemma branch_thread_trv p seed p' t : branch_thread p seed = POk (p', t) -> trv p p'.
Proof.
  intros H Ht. destruct (branch_thread_cases _ _ _ _ H) as [(Hf & _)|(_ & _ & s & -> & _)]; [congruence|].
  apply traversed_push, Ht.
Qed.

Lemma dpor_loop_trv objs ths p p' : dpor_loop objs ths p = POk p' -> trv p p'.
Proof. intros H Ht. rewrite (dpor_loop_traversed _ _ _ _ H). exact Ht. Qed.

Lemma schedule_trv e : trv (e_path e) (e_path (res_exec (fst (schedule e)))).
Proof.
  destruct (schedule_cases e)
    as [(c & ->)|[(x & ->)|[(p1 & x & Hd & ->)|(curr & cur_th & p1 & p2 & next & Hp & ->)]]].
  - apply trv_refl.
  - apply trv_refl.
  - cbn [fst res_exec]. eapply dpor_loop_trv; eassumption.
  - rewrite sched_post_path. destruct Hp as (_ & _ & Hd & Hb).
    eapply trv_trans; [eapply dpor_loop_trv; eassumption|eapply branch_thread_trv; eassumption].
Qed.

Lemma schedule_trv_k p e : trv p (e_path e) -> trv p (e_path (res_exec (fst (schedule e)))).
Proof. intros H. eapply trv_trans; [exact H|apply schedule_trv]. Qed.

Lemma do_branch_trv_k p e me obj act blk :
  trv p (e_path e) -> trv p (e_path (res_exec (do_branch e me obj act blk))).
Proof. intros H. unfold do_branch. apply schedule_trv_k. exact H. Qed.

Lemma do_park_trv_k p e me :
  trv p (e_path e) -> trv p (e_path (res_exec (do_park e me))).
Proof.
  intros H. unfold do_park. destruct (get_thread e me) as [t|]; [|exact H].
  repeat match goal with
         | |- context [match ?x with _ => _ end] => destruct x
         end; first [exact H|apply schedule_trv_k; exact H].
Qed.

Lemma do_yield_trv_k p e me :
  trv p (e_path e) -> trv p (e_path (res_exec (do_yield e me))).
Proof. intros H. unfold do_yield. apply schedule_trv_k. exact H. Qed.

(* what a load does on a traversed path: a fresh entry that records the seed *)
Lemma choose_store_traversed e sd e2 idx :
  is_traversed (e_path e) = true -> choose_store e (Some sd) = (e2, inl idx) ->
  e_path e2 = set_pos (set_branches (e_path e) (branches (e_path e) ++ [ELoad (mkLoad sd 0 (exploring (e_path e)))]))
                      (S (pos (e_path e))) /\
  idx = nth 0 sd 0.
Proof.
  intros Ht H. unfold choose_store in H. rewrite Ht in H.
  destruct (push_load (e_path e) sd) as [p1|x] eqn:Hp; [|discriminate].
  destruct (push_load_cases _ _ _ Hp) as (_ & _ & ->).
  unfold branch_load in H.
  assert (Hnt : is_traversed (set_branches (e_path e)
                   (branches (e_path e) ++ [ELoad (mkLoad sd 0 (exploring (e_path e)))])) = false).
  { unfold is_traversed in *. cbn [set_branches pos branches]. apply Nat.eqb_eq in Ht.
    apply Nat.eqb_neq. rewrite app_length. cbn [length]. lia. }
  rewrite Hnt in H. cbn [set_branches pos branches] in H.
  unfold is_traversed in Ht. apply Nat.eqb_eq in Ht.
  rewrite Ht, nth_error_app2, Nat.sub_diag in H by apply Nat.le_refl.
  cbn [nth_error l_vals l_pos] in H.
  destruct sd as [|v sd'].
  - cbn [nth_error] in H. destruct (Nat.ltb 0 MAX_ATOMIC_HISTORY); [|discriminate].
    injection H as <- <-. rewrite ex_set_path_path, Ht. split; reflexivity.
  - cbn [nth_error] in H. injection H as <- <-. rewrite ex_set_path_path, Ht. split; reflexivity.
Qed.

Lemma choose_store_trv e seed : trv (e_path e) (e_path (fst (choose_store e seed))).
Proof.
  intros Ht. destruct seed as [sd|].
  - destruct (choose_store e (Some sd)) as [e2 [idx|pn]] eqn:H; cbn [fst].
    + destruct (choose_store_traversed e sd e2 idx Ht H) as [-> _]. apply traversed_push, Ht.
    + unfold choose_store in H. rewrite Ht in H.
      destruct (push_load (e_path e) sd) as [p1|x]; [|injection H as <- _; exact Ht].
      destruct (branch_load p1) as [[p2 i]|x]; [discriminate|]. injection H as <- _. exact Ht.
  - unfold choose_store. rewrite Ht. cbn [fst]. exact Ht.
Qed.

Lemma load_post_trv e me a o : trv (e_path e) (e_path (lp_exec (load_post e me a o))).
Proof.
  unfold load_post.
  destruct (get_atomic (causality_inc e me) a) as [s|]; [|cbn; autorewrite with epath; apply trv_refl].
  destruct (get_thread (causality_inc e me) me) as [t|]; [|cbn; autorewrite with epath; apply trv_refl].
  pose proof (choose_store_trv (causality_inc e me)
                (match_load_to_stores s me (t_caus t) (t_last_yield t) o)) as H.
  destruct (choose_store (causality_inc e me) (match_load_to_stores s me (t_caus t) (t_last_yield t) o))
    as [e1 [idx|p]]; cbn [fst] in H; autorewrite with epath in H.
  - destruct (atomic_load s me (t_caus t) idx o) as [[[s' c'] v]|p]; cbn [lp_exec];
      autorewrite with epath; exact H.
  - cbn [lp_exec]. exact H.
Qed.

Ltac use_eqs3 :=
  repeat match goal with
         | H : e_path _ = _ |- _ => rewrite H in *; clear H
         end.

Ltac trv_step :=
  match goal with
  | |- trv _ (e_path (res_exec (fst (schedule _)))) => apply schedule_trv_k
  | |- trv _ (e_path (res_exec (do_branch _ _ _ _ _))) => apply do_branch_trv_k
  | |- trv _ (e_path (res_exec (do_park _ _))) => apply do_park_trv_k
  | |- trv _ (e_path (res_exec (do_yield _ _))) => apply do_yield_trv_k
  | |- context [post_acquire ?e ?me ?m] =>
      let H := fresh "Hfr" in
      pose proof (post_acquire_path e me m) as H;
      destruct (post_acquire e me m); cbn [fst] in H
  | |- context [post_acquire_read ?e ?me ?m] =>
      let H := fresh "Hfr" in
      pose proof (post_acquire_read_path e me m) as H;
      destruct (post_acquire_read e me m); cbn [fst] in H
  | |- context [post_acquire_write ?e ?me ?m] =>
      let H := fresh "Hfr" in
      pose proof (post_acquire_write_path e me m) as H;
      destruct (post_acquire_write e me m); cbn [fst] in H
  | |- context [release_read ?e ?me ?m] =>
      let H := fresh "Hfr" in
      pose proof (release_read_path e me m) as H;
      destruct (release_read e me m); cbn [res_exec] in H
  | |- context [release_write ?e ?me ?m] =>
      let H := fresh "Hfr" in
      pose proof (release_write_path e me m) as H;
      destruct (release_write e me m); cbn [res_exec] in H
  | |- context [load_post ?e ?me ?a ?o] =>
      let H := fresh "Hlp" in
      pose proof (load_post_trv e me a o) as H;
      destruct (load_post e me a o) as [[? ?]|[? ?]]; cbn [lp_exec] in H
  | |- context [choose_store ?e ?s] =>
      let H := fresh "Hcs" in
      pose proof (choose_store_trv e s) as H;
      destruct (choose_store e s) as [? [?|?]]; cbn [fst] in H
  | |- context [branch_spurious ?p] =>
      let H := fresh "Hbs" in
      destruct (branch_spurious p) as [[? ?]|?] eqn:H;
      [apply branch_spurious_trv in H|]
  | |- context [explore_state ?p] =>
      let H := fresh "Hes" in
      destruct (explore_state p) eqn:H; [apply explore_state_trv in H|]
  | |- context [critical ?p] =>
      let H := fresh "Hcr" in
      destruct (critical p) eqn:H; [apply critical_trv in H|]
  | |- context [match ?x with _ => _ end] =>
      lazymatch x with
      | context [match _ with _ => _ end] => fail
      | _ => destruct x
      end
  end.

Ltac trv_close :=
  cbn [res_exec]; autorewrite with epath in *; use_eqs3;
  first [ apply trv_refl | assumption | apply skip_branch_trv
        | eapply trv_trans; eassumption ].

Ltac trv_tac :=
  cbn [exec_micro]; unfold lift_path, mbind;
  repeat trv_step; trv_close.

Lemma exec_micro_trv e me m : trv (e_path e) (e_path (res_exec (exec_micro e me m))).
Proof. destruct m; trv_tac. Qed.

Theorem steps_traversed : forall e e', steps e e' ->
  is_traversed (e_path e) = true -> is_traversed (e_path e') = true.
Proof.
  intros e e' H. induction H as [e|e me t m rest e1 e2 Hact Ht Hc Hx Hs IH]; intros Hi; [exact Hi|].
  apply IH. pose proof (exec_micro_trv (upd_thread e me (fun t => th_set_cont t rest)) me m) as Hk.
  rewrite Hx in Hk. cbn [res_exec] in Hk. apply Hk. rewrite upd_thread_path. exact Hi.
Qed.

(* ================================================================== *)
(* 2. The replay clause, and the run-level theorem with the ring only    *)
(* ================================================================== *)

(* the replay clause of SideOK2, on its own *)
Definition ReplayAt (a : nat) (e : exec) (me : nat) (m : micro) : Prop :=
  forall s t0 seed e2 idx l,
    get_atomic e a = Some s -> get_thread e me = Some t0 -> micro_seed s me t0 m = Some seed ->
    choose_store (causality_inc e me) seed = (e2, inl idx) -> seed = Some l -> l <> [] -> In idx l.

(* a fresh Load entry answers a candidate *)
Theorem fresh_load_is_candidate : forall e l e2 idx,
  is_traversed (e_path e) = true -> choose_store e (Some l) = (e2, inl idx) -> l <> [] ->
  In idx l /\
  nth_error (branches (e_path e2)) (pos (e_path e)) = Some (ELoad (mkLoad l 0 (exploring (e_path e)))) /\
  pos (e_path e2) = S (pos (e_path e)).
Proof.
  intros e l e2 idx Ht H Hne. destruct (choose_store_traversed e l e2 idx Ht H) as [Hp ->].
  split; [destruct l as [|v l']; [contradiction|left; reflexivity]|].
  rewrite Hp. cbn [set_pos set_branches branches pos]. split; [|reflexivity].
  unfold is_traversed in Ht. apply Nat.eqb_eq in Ht.
  rewrite Ht, nth_error_app2, Nat.sub_diag by apply Nat.le_refl. reflexivity.
Qed.

Lemma traversed_ReplayAt : forall a e me m, is_traversed (e_path e) = true -> ReplayAt a e me m.
Proof.
  intros a e me m Ht s t0 seed e2 idx l _ _ _ H -> Hne.
  assert (Ht' : is_traversed (e_path (causality_inc e me)) = true) by (rewrite causality_inc_path; exact Ht).
  exact (proj1 (fresh_load_is_candidate _ l e2 idx Ht' H Hne)).
Qed.

(* the only hypothesis left for such runs: the ring of a has room at every access *)
Definition RunOK3 (p : prog) (pa : path) (a : nat) : Prop :=
  forall e me t m rest s,
    steps (init_exec p pa) e -> e_active e = Some me ->
    nth_error (e_threads e) me = Some t -> t_cont t = m :: rest -> acc_on a m ->
    get_atomic e a = Some s -> at_cnt s < MAX_ATOMIC_HISTORY.

(* the replay clause at every access of a reachable state *)
Definition ReplayOK (p : prog) (pa : path) (a : nat) : Prop :=
  forall e me t m rest,
    steps (init_exec p pa) e -> e_active e = Some me ->
    nth_error (e_threads e) me = Some t -> t_cont t = m :: rest -> acc_on a m ->
    ReplayAt a (upd_thread e me (fun t => th_set_cont t rest)) me m.

Theorem RunOK3_RunOK2 : forall p pa a, ReplayOK p pa a -> RunOK3 p pa a -> RunOK2 p pa a.
Proof.
  intros p pa a Hrep Hring e me t m rest Hs Hact Ht Hc Ha. split.
  - intros s Hg. destruct (pop_cont_frame e me rest) as [_ Hg0]. rewrite Hg0 in Hg.
    exact (Hring e me t m rest s Hs Hact Ht Hc Ha Hg).
  - exact (Hrep e me t m rest Hs Hact Ht Hc Ha).
Qed.

Theorem traversed_ReplayOK : forall p pa a, is_traversed pa = true -> ReplayOK p pa a.
Proof.
  intros p pa a Ht e me t m rest Hs _ _ _ _. apply traversed_ReplayAt.
  rewrite upd_thread_path. apply (steps_traversed _ _ Hs). rewrite init_exec_path. exact Ht.
Qed.

(* the first iteration: the path of Builder::check before any step *)
Lemma initial_path_traversed : forall c, is_traversed (initial_path c) = true.
Proof. intros c. reflexivity. Qed.

Theorem traversed_run_goodAt : forall p pa a s0 e,
  max_threads (p_cfg p) <= MAX_THREADS -> is_traversed pa = true ->
  get_atomic (init_exec p pa) a = Some s0 -> RunOK3 p pa a ->
  steps (init_exec p pa) e -> GoodAt a e.
Proof.
  intros p pa a s0 e Hm Ht Hs0 Hring Hs.
  exact (run_goodAt2 p pa a s0 e Hm Hs0
           (RunOK3_RunOK2 p pa a (traversed_ReplayOK p pa a Ht) Hring) Hs).
Qed.

Theorem first_iteration_goodAt : forall p a s0 e,
  max_threads (p_cfg p) <= MAX_THREADS ->
  get_atomic (init_exec p (initial_path (p_cfg p))) a = Some s0 ->
  RunOK3 p (initial_path (p_cfg p)) a ->
  steps (init_exec p (initial_path (p_cfg p))) e -> GoodAt a e.
Proof.
  intros p a s0 e Hm. apply (traversed_run_goodAt p _ a s0 e Hm (initial_path_traversed _)).
Qed.

Theorem first_iteration_coherence : forall p a s0 e e' s t i j,
  max_threads (p_cfg p) <= MAX_THREADS ->
  get_atomic (init_exec p (initial_path (p_cfg p))) a = Some s0 ->
  RunOK3 p (initial_path (p_cfg p)) a ->
  steps (init_exec p (initial_path (p_cfg p))) e -> steps e e' ->
  get_atomic e a = Some s -> t < MAX_THREADS -> i < at_cnt s -> j < at_cnt s ->
  vv_lt (mo s i) (mo s j) = true ->
  is_seen_by_current (st_seen (get_store s j)) (caus_of e t) = true ->
  exists s', get_atomic e' a = Some s' /\
    (forall ly o l, match_load_to_stores s' t (vv_inc (caus_of e' t) t) ly o = Some l -> ~ In i l) /\
    (forall l, match_rmw_to_stores s' = Some l -> ~ In i l).
Proof.
  intros p a s0 e e' s t i j Hm Hs0 Hring.
  apply (CoRR_CoWR_steps2 p _ a s0 e e' s t i j Hm Hs0).
  apply RunOK3_RunOK2; [apply traversed_ReplayOK, initial_path_traversed|exact Hring].
Qed.

(* once an iteration has left its stored prefix, every later access of a is fine *)
Theorem after_prefix_ReplayAt : forall a e0 e me t m rest,
  is_traversed (e_path e0) = true -> steps e0 e ->
  nth_error (e_threads e) me = Some t -> t_cont t = m :: rest ->
  ReplayAt a (upd_thread e me (fun t => th_set_cont t rest)) me m.
Proof.
  intros a e0 e me t m rest Ht Hs _ _. apply traversed_ReplayAt.
  rewrite upd_thread_path. exact (steps_traversed _ _ Hs Ht).
Qed.

(* ================================================================== *)
(* 3. Replayed entries: what the stack has to record                    *)
(* ================================================================== *)

(* the entry under the cursor records the candidate list of this access, with
   its position inside the list *)
Definition Recorded (a : nat) (e : exec) (me : nat) (m : micro) : Prop :=
  forall s t0 l,
    get_atomic e a = Some s -> get_thread e me = Some t0 ->
    micro_seed s me t0 m = Some (Some l) -> l <> [] ->
    is_traversed (e_path e) = false ->
    exists ld, nth_error (branches (e_path e)) (pos (e_path e)) = Some (ELoad ld) /\
               l_vals ld = l /\ l_pos ld < length l.

Lemma replayed_load_answer : forall e sd e2 idx ld,
  is_traversed (e_path e) = false ->
  nth_error (branches (e_path e)) (pos (e_path e)) = Some (ELoad ld) ->
  l_pos ld < length (l_vals ld) ->
  choose_store e sd = (e2, inl idx) -> nth_error (l_vals ld) (l_pos ld) = Some idx.
Proof.
  intros e sd e2 idx ld Ht Hn Hp H. unfold choose_store in H. rewrite Ht in H.
  unfold branch_load in H. rewrite Ht, Hn in H.
  destruct (nth_error (l_vals ld) (l_pos ld)) as [v|] eqn:Hv.
  - injection H as _ <-. reflexivity.
  - apply nth_error_None in Hv. lia.
Qed.

Theorem recorded_ReplayAt : forall a e me m, Recorded a e me m -> ReplayAt a e me m.
Proof.
  intros a e me m Hrec s t0 seed e2 idx l Hat Hth Hseed H -> Hne.
  destruct (is_traversed (e_path e)) eqn:Ht.
  - exact (traversed_ReplayAt a e me m Ht s t0 (Some l) e2 idx l Hat Hth Hseed H eq_refl Hne).
  - destruct (Hrec s t0 l Hat Hth Hseed Hne Ht) as (ld & Hn & Hv & Hp).
    assert (Ht' : is_traversed (e_path (causality_inc e me)) = false)
      by (rewrite causality_inc_path; exact Ht).
    assert (Hn' : nth_error (branches (e_path (causality_inc e me))) (pos (e_path (causality_inc e me)))
                  = Some (ELoad ld)) by (rewrite causality_inc_path; exact Hn).
    rewrite <- Hv in Hp.
    pose proof (replayed_load_answer _ _ e2 idx ld Ht' Hn' Hp H) as Hi.
    rewrite <- Hv. eapply nth_error_In. exact Hi.
Qed.

Definition RecordedOK (p : prog) (pa : path) (a : nat) : Prop :=
  forall e me t m rest,
    steps (init_exec p pa) e -> e_active e = Some me ->
    nth_error (e_threads e) me = Some t -> t_cont t = m :: rest -> acc_on a m ->
    Recorded a (upd_thread e me (fun t => th_set_cont t rest)) me m.

Theorem RecordedOK_ReplayOK : forall p pa a, RecordedOK p pa a -> ReplayOK p pa a.
Proof.
  intros p pa a H e me t m rest Hs Hact Ht Hc Ha. apply recorded_ReplayAt.
  exact (H e me t m rest Hs Hact Ht Hc Ha).
Qed.

Theorem recorded_run_goodAt : forall p pa a s0 e,
  max_threads (p_cfg p) <= MAX_THREADS ->
  get_atomic (init_exec p pa) a = Some s0 -> RecordedOK p pa a -> RunOK3 p pa a ->
  steps (init_exec p pa) e -> GoodAt a e.
Proof.
  intros p pa a s0 e Hm Hs0 Hrec Hring Hs.
  exact (run_goodAt2 p pa a s0 e Hm Hs0
           (RunOK3_RunOK2 p pa a (RecordedOK_ReplayOK p pa a Hrec) Hring) Hs).
Qed.

(* ---- the facts about the stack that a proof of RecordedOK for the paths of
        the exploration can use ---- *)

Lemma steps_path_ok : forall e e', steps e e' -> path_ok (e_path e) (e_path e').
Proof.
  intros e e' H. induction H as [e|e me t m rest e1 e2 Hact Ht Hc Hx Hs IH]; [apply path_ok_refl|].
  pose proof (exec_micro_path_ok (upd_thread e me (fun t => th_set_cont t rest)) me m) as Hm.
  rewrite upd_thread_path, Hx in Hm. eapply path_ok_trans; [exact Hm|exact IH].
Qed.

(* a Load entry is never modified during an iteration *)
Theorem steps_load_entry_fixed : forall e e' i ld,
  steps e e' -> nth_error (branches (e_path e)) i = Some (ELoad ld) ->
  nth_error (branches (e_path e')) i = Some (ELoad ld).
Proof.
  intros e e' i ld Hs Hn. destruct (steps_path_ok _ _ Hs) as ((_ & _ & _ & old & new & Hb & Hf) & _).
  rewrite Hb.
  assert (Hi : i < length (branches (e_path e))) by (apply nth_error_Some; congruence).
  pose proof (Forall2_len _ _ _ _ _ Hf) as Hlen.
  rewrite nth_error_app1 by lia.
  clear Hb Hlen. revert i Hn Hi. induction Hf as [|x y l l' Hxy Hf IH]; intros i Hn Hi; [cbn in Hi; lia|].
  destruct i as [|i]; cbn [nth_error] in *.
  - injection Hn as ->. destruct (ext_inv _ _ Hxy) as [->|(s & th & Hs' & _)]; [reflexivity|discriminate].
  - apply IH; [exact Hn|cbn [length] in Hi; lia].
Qed.

(* Path::step keeps the candidate list of every Load entry it keeps, and the
   position stays inside the list *)
Theorem step_load_entry : forall p p' i ld',
  step p = Some p' -> nth_error (branches p') i = Some (ELoad ld') ->
  exists ld, nth_error (branches p) i = Some (ELoad ld) /\ l_vals ld' = l_vals ld /\
             (ld' = ld \/ (S i = length (branches p') /\ l_pos ld' = S (l_pos ld) /\
                           l_pos ld' < length (l_vals ld'))).
Proof.
  intros p p' i ld' H Hn.
  destruct (step_cases _ _ H) as (kept & e0 & e' & popped & Hb & Hb' & He & _).
  rewrite Hb' in Hn. rewrite Hb, Hb'.
  destruct (Nat.lt_ge_cases i (length kept)) as [Hlt|Hge].
  - rewrite nth_error_app1 in Hn by assumption. exists ld'.
    rewrite nth_error_app1 by assumption. auto.
  - rewrite nth_error_app2 in Hn by assumption. rewrite nth_error_app2 by assumption.
    destruct (i - length kept) as [|k] eqn:Hk; cbn [nth_error] in *; [|destruct k; discriminate].
    injection Hn as ->. destruct e0 as [s|l|s]; cbn [advance_entry] in He.
    + destruct (negb (s_ex s)); [discriminate|]. destruct (activate_pending _); discriminate.
    + destruct (negb (l_ex l)); [discriminate|].
      destruct (Nat.ltb (S (l_pos l)) (length (l_vals l))) eqn:Hl; [|discriminate].
      injection He as <-. apply Nat.ltb_lt in Hl. exists l. split; [reflexivity|].
      split; [reflexivity|]. right. rewrite app_length. cbn [length l_pos l_vals].
      split; [lia|]. split; [reflexivity|exact Hl].
    + destruct (negb (p_ex s)); [discriminate|]. destruct (p_spur s); discriminate.
Qed.


(* ================================================================== *)
(* 4. A checker for RecordedOK over a whole exploration                  *)
(* ================================================================== *)
(* The general statement "every path that Path::step produces from the end of
   an iteration records, at each replayed Load entry, the candidate list of the
   re-run" needs the determinism of an iteration as a function of the consumed
   prefix of the stack, which is not available (see the report).  What follows
   is a sound boolean check of it, iteration by iteration, so that it can be
   established for a given program by computation. *)

Definition acc_idx (m : micro) : option nat :=
  match m with
  | MLoadPost b _ _ | MFuLoadPost b _ _ _ _ | MRmwPost b _ _ _
  | MBoLoad b _ _ _ _ _ | MBsLoad b _ _ _ _ _ _ => Some b
  | _ => None
  end.

Fixpoint list_nat_eqb (a b : list nat) : bool :=
  match a, b with
  | [], [] => true
  | x :: a', y :: b' => Nat.eqb x y && list_nat_eqb a' b'
  | _, _ => false
  end.

Lemma list_nat_eqb_eq : forall a b, list_nat_eqb a b = true -> a = b.
Proof.
  induction a as [|x a IH]; intros [|y b] H; cbn [list_nat_eqb] in H; try discriminate; [reflexivity|].
  apply andb_true_iff in H. destruct H as [H1 H2]. apply Nat.eqb_eq in H1. subst y.
  rewrite (IH b H2). reflexivity.
Qed.

(* (number of replayed loads checked, verdict) at one micro-operation *)
Definition rec_check (e1 : exec) (me : nat) (m : micro) : nat * bool :=
  match acc_idx m with
  | None => (0, true)
  | Some a =>
    match get_atomic e1 a, get_thread e1 me with
    | Some s, Some t0 =>
        match micro_seed s me t0 m with
        | Some (Some l) =>
            if is_traversed (e_path e1) then (0, true)
            else match nth_error (branches (e_path e1)) (pos (e_path e1)) with
                 | Some (ELoad ld) => (1, list_nat_eqb (l_vals ld) l && Nat.ltb (l_pos ld) (length l))
                 | _ => (1, false)
                 end
        | _ => (0, true)
        end
    | _, _ => (0, true)
    end
  end.

Lemma rec_check_sound : forall a e1 me m,
  snd (rec_check e1 me m) = true -> acc_on a m -> Recorded a e1 me m.
Proof.
  intros a e1 me m H Ha s t0 l Hat Hth Hseed Hne Ht. unfold rec_check in H.
  assert (Hidx : acc_idx m = Some a).
  { destruct m; cbn [acc_on] in Ha; try contradiction; subst; cbn [acc_idx micro_seed] in *;
      try reflexivity; discriminate Hseed. }
  rewrite Hidx, Hat, Hth, Hseed, Ht in H.
  destruct (nth_error (branches (e_path e1)) (pos (e_path e1))) as [[x|ld|x]|]; cbn [snd] in H;
    try discriminate.
  apply andb_true_iff in H. destruct H as [H1 H2]. apply list_nat_eqb_eq in H1.
  apply Nat.ltb_lt in H2. exists ld. auto.
Qed.

(* Scheduler::run (Check.run) with the check at every micro-operation *)
Fixpoint run_rec (fuel : nat) (e : exec) (n : nat) (ok : bool) : exec * iter_end * nat * bool :=
  match fuel with
  | 0 => (e, IterFuel, n, ok)
  | S fuel' =>
      match e_active e with
      | None => (e, IterDone, n, ok)
      | Some me =>
          match nth_error (e_threads e) me with
          | None => (e, IterPanic (PanicModel 30), n, ok)
          | Some t =>
              match t_cont t with
              | [] => (e, IterPanic (PanicModel 31), n, ok)
              | m :: rest =>
                  let e1 := upd_thread e me (fun t => th_set_cont t rest) in
                  match exec_micro e1 me m with
                  | MOk e2 => run_rec fuel' e2 (n + fst (rec_check e1 me m)) (ok && snd (rec_check e1 me m))
                  | MFail e2 p => (e2, IterPanic p, n + fst (rec_check e1 me m), ok && snd (rec_check e1 me m))
                  end
              end
          end
      end
  end.

Lemma run_rec_run : forall fuel e n ok e' r n' ok',
  run_rec fuel e n ok = (e', r, n', ok') -> run fuel e = (e', r).
Proof.
  induction fuel as [|fuel IH]; intros e n ok e' r n' ok' H; cbn [run_rec run] in *.
  - injection H as <- <- _ _. reflexivity.
  - destruct (e_active e) as [me|]; [|injection H as <- <- _ _; reflexivity].
    destruct (nth_error (e_threads e) me) as [t|]; [|injection H as <- <- _ _; reflexivity].
    destruct (t_cont t) as [|m rest]; [injection H as <- <- _ _; reflexivity|].
    cbv zeta in H. destruct (exec_micro _ me m) as [e2|e2 p].
    + eapply IH. exact H.
    + injection H as <- <- _ _. reflexivity.
Qed.

Lemma run_rec_ok_in : forall fuel e n ok e' r n',
  run_rec fuel e n ok = (e', r, n', true) -> ok = true.
Proof.
  induction fuel as [|fuel IH]; intros e n ok e' r n' H; cbn [run_rec] in H.
  - injection H as _ _ _ ->. reflexivity.
  - destruct (e_active e) as [me|]; [|injection H as _ _ _ ->; reflexivity].
    destruct (nth_error (e_threads e) me) as [t|]; [|injection H as _ _ _ ->; reflexivity].
    destruct (t_cont t) as [|m rest]; [injection H as _ _ _ ->; reflexivity|].
    cbv zeta in H. destruct (exec_micro _ me m) as [e2|e2 p].
    + apply IH in H. apply andb_true_iff in H. tauto.
    + injection H as _ _ _ H. apply andb_true_iff in H. tauto.
Qed.

Theorem run_rec_sound : forall a fuel e n ok e' r n',
  run_rec fuel e n ok = (e', r, n', true) -> r <> IterFuel ->
  forall e1 me t m rest,
    steps e e1 -> e_active e1 = Some me -> nth_error (e_threads e1) me = Some t ->
    t_cont t = m :: rest -> acc_on a m ->
    Recorded a (upd_thread e1 me (fun t => th_set_cont t rest)) me m.
Proof.
  intros a. induction fuel as [|fuel IH]; intros e n ok e' r n' H Hr e1 me t m rest Hs Hact Ht Hc Ha;
    cbn [run_rec] in H.
  - injection H as _ <- _ _. contradiction.
  - destruct Hs as [e|e me0 t0 m0 rest0 e2 e3 Hact0 Ht0 Hc0 Hx0 Hs0].
    + rewrite Hact, Ht, Hc in H. cbv zeta in H.
      apply rec_check_sound; [|exact Ha].
      destruct (exec_micro _ me m) as [e2|e2 p].
      * apply run_rec_ok_in in H. apply andb_true_iff in H. tauto.
      * injection H as _ _ _ H. apply andb_true_iff in H. tauto.
    + rewrite Hact0, Ht0, Hc0 in H. cbv zeta in H. rewrite Hx0 in H.
      pose proof (run_rec_ok_in _ _ _ _ _ _ _ H) as Hok.
      exact (IH _ _ _ _ _ _ H Hr e3 me t m rest Hs0 Hact Ht Hc Ha).
Qed.

(* the paths of an exploration: the begin path, and Path::step of the end path
   of every completed iteration (a superset of the begin paths of Builder::check,
   which also stops at a leak) *)
Inductive Explored (fuel : nat) (p : prog) (pa0 : path) : path -> Prop :=
  | Explored_first : Explored fuel p pa0 pa0
  | Explored_next pa e pa' :
      Explored fuel p pa0 pa -> run fuel (init_exec p pa) = (e, IterDone) ->
      step (e_path e) = Some pa' -> Explored fuel p pa0 pa'.

(* the loop: (iterations, replayed loads checked, verdict, finished) *)
Fixpoint explore_rec (ifuel fuel : nat) (p : prog) (pa : path) (its n : nat) (ok : bool)
  : nat * nat * bool * bool :=
  match ifuel with
  | 0 => (its, n, ok, false)
  | S ifuel' =>
      match run_rec fuel (init_exec p pa) n ok with
      | (e, IterDone, n', ok') =>
          match step (e_path e) with
          | Some pa' => explore_rec ifuel' fuel p pa' (S its) n' ok'
          | None => (S its, n', ok', true)
          end
      | (_, _, n', ok') => (S its, n', ok', false)
      end
  end.

Lemma explore_rec_ok_in : forall ifuel fuel p pa its n ok its' n' fin,
  explore_rec ifuel fuel p pa its n ok = (its', n', true, fin) -> ok = true.
Proof.
  induction ifuel as [|ifuel IH]; intros fuel p pa its n ok its' n' fin H; cbn [explore_rec] in H.
  - injection H as _ _ -> _. reflexivity.
  - destruct (run_rec fuel (init_exec p pa) n ok) as [[[e r] n1] ok1] eqn:Hr.
    assert (Hk : ok1 = true -> ok = true).
    { intros ->. exact (run_rec_ok_in _ _ _ _ _ _ _ Hr). }
    destruct r; try (injection H as _ _ -> _; auto).
    destruct (step (e_path e)) as [pa'|]; [|injection H as _ _ -> _; auto].
    apply Hk. exact (IH _ _ _ _ _ _ _ _ _ H).
Qed.

Theorem explore_rec_sound : forall a ifuel fuel p pa0 its n its' n',
  explore_rec ifuel fuel p pa0 its n true = (its', n', true, true) ->
  forall pa, Explored fuel p pa0 pa ->
    RecordedOK p pa a /\
    exists k its1 n1 e, k <= ifuel /\
      explore_rec (S k) fuel p pa its1 n1 true = (its', n', true, true) /\
      fst (fst (run_rec fuel (init_exec p pa) n1 true)) = (e, IterDone).
Proof.
  intros a ifuel fuel p pa0 its n its' n' H pa Hex.
  assert (Hmain : exists k its1 n1, S k <= ifuel /\
            explore_rec (S k) fuel p pa its1 n1 true = (its', n', true, true)).
  { induction Hex as [|pa e pa' Hex IH Hrun Hstep].
    - destruct ifuel as [|k]; [cbn in H; discriminate|]. exists k, its, n. split; [lia|exact H].
    - destruct IH as (k & its1 & n1 & Hk & He). cbn [explore_rec] in He.
      destruct (run_rec fuel (init_exec p pa) n1 true) as [[[e1 r1] n2] ok2] eqn:Hr.
      pose proof (run_rec_run _ _ _ _ _ _ _ _ Hr) as Hrr. rewrite Hrun in Hrr.
      injection Hrr as <- <-. rewrite Hstep in He.
      pose proof (explore_rec_ok_in _ _ _ _ _ _ _ _ _ _ He) as ->.
      destruct k as [|k]; [cbn in He; discriminate|].
      exists k, (S its1), n2. split; [lia|exact He]. }
  destruct Hmain as (k & its1 & n1 & Hk & He).
  pose proof He as He0. cbn [explore_rec] in He.
  destruct (run_rec fuel (init_exec p pa) n1 true) as [[[e1 r1] n2] ok2] eqn:Hr.
  assert (Hok2 : ok2 = true /\ r1 = IterDone).
  { destruct r1; try discriminate He.
    destruct (step (e_path e1)); [|injection He as _ _ ->; auto].
    split; [exact (explore_rec_ok_in _ _ _ _ _ _ _ _ _ _ He)|reflexivity]. }
  destruct Hok2 as [-> ->]. split.
  - intros e me t m rest Hs Hact Ht Hc Ha.
    refine (run_rec_sound a fuel (init_exec p pa) n1 true e1 IterDone n2 Hr _ e me t m rest Hs Hact Ht Hc Ha).
    discriminate.
  - exists k, its1, n1, e1. split; [lia|]. split; [exact He0|rewrite Hr; reflexivity].
Qed.

(* the headline for a checked exploration: for EVERY path of the exploration and
   every state of its iteration, the atomic a is good, given room in the ring *)
Theorem explored_run_goodAt : forall a ifuel fuel p its' n' pa s0 e,
  max_threads (p_cfg p) <= MAX_THREADS ->
  explore_rec ifuel fuel p (initial_path (p_cfg p)) 0 0 true = (its', n', true, true) ->
  Explored fuel p (initial_path (p_cfg p)) pa ->
  get_atomic (init_exec p pa) a = Some s0 -> RunOK3 p pa a ->
  steps (init_exec p pa) e -> GoodAt a e.
Proof.
  intros a ifuel fuel p its' n' pa s0 e Hm Hchk Hex Hs0 Hring Hs.
  destruct (explore_rec_sound a ifuel fuel p _ 0 0 its' n' Hchk pa Hex) as [Hrec _].
  exact (recorded_run_goodAt p pa a s0 e Hm Hs0 Hrec Hring Hs).
Qed.

(* the begin path of every record of Builder::check is such a path *)
Lemma rec_of_done : forall fuel p pa,
  ir_result (rec_of fuel p pa) = IterDone ->
  exists e, run fuel (init_exec p pa) = (e, IterDone) /\ ir_end (rec_of fuel p pa) = e_path e.
Proof.
  intros fuel p pa. unfold rec_of. rewrite iteration_unfold.
  destruct (run fuel (init_exec p pa)) as [e r]. destruct r; cbn [ir_result ir_end]; try discriminate.
  - destruct (check_for_leaks (e_objects e)); cbn [ir_result ir_end]; [discriminate|].
    intros _. exists e. auto.
Qed.

Lemma Loop_Explored : forall fuel p pa0 n i pa ck rest fin ck',
  Loop fuel p n i pa ck rest fin ck' -> Explored fuel p pa0 pa ->
  forall r, In r rest -> Explored fuel p pa0 (ir_begin r).
Proof.
  intros fuel p pa0 n i pa ck rest fin ck' HL.
  induction HL as [i pa ck|n i pa ck Hst|n i pa ck pn Hst Hres|n i pa ck Hst Hres
                  |n i pa ck Hst Hres Hstep|n i pa ck pa' rest fin ck' Hst Hres Hstep HL IH];
    intros Hex r Hin; cbn [In] in Hin; try contradiction.
  - destruct Hin as [<-|[]]. rewrite rec_of_begin. exact Hex.
  - destruct Hin as [<-|[]]. rewrite rec_of_begin. exact Hex.
  - destruct Hin as [<-|[]]. rewrite rec_of_begin. exact Hex.
  - destruct Hin as [<-|Hin]; [rewrite rec_of_begin; exact Hex|].
    apply IH; [|exact Hin]. destruct (rec_of_done _ _ _ Hres) as (e & Hrun & Hend).
    rewrite Hend in Hstep. exact (Explored_next fuel p pa0 pa e pa' Hex Hrun Hstep).
Qed.

Theorem check_records_Explored : forall ifuel fuel p recs fin ck r,
  check ifuel fuel p = (recs, fin, ck) -> In r recs ->
  Explored fuel p (initial_path (p_cfg p)) (ir_begin r).
Proof.
  intros ifuel fuel p recs fin ck r H Hin. unfold check in H.
  apply (proj1 (check_loop_Loop fuel p ifuel 1 (initial_path (p_cfg p)) None [] recs fin ck)) in H.
  exact (Loop_Explored fuel p _ _ _ _ _ _ _ _ H (Explored_first fuel p _) r Hin).
Qed.

(* two explorations checked by computation: (iterations, replayed loads, ok, finished) *)
Definition cfgT : config := mkConfig 5 1000 None None None false.
Definition p_sl : prog :=
  mkProg cfgT [DAtomic 0]
    [[ISpawn 1; IStore 0 1 Relaxed; ILoad 0 Relaxed; IJoin 1]; [IStore 0 2 Relaxed; ILoad 0 Relaxed]].
Definition p_mp : prog :=
  mkProg cfgT [DAtomic 0; DAtomic 0]
    [[ISpawn 1; IStore 0 1 Relaxed; ILoad 1 Acquire; ILoad 0 Relaxed; IJoin 1];
     [IStore 1 1 Release; IRmw 0 RAdd 10 AcqRel; ILoad 0 Relaxed]].

Lemma p_sl_checked : explore_rec 2000 2000 p_sl (initial_path cfgT) 0 0 true = (25, 28, true, true).
Proof. vm_compute. reflexivity. Qed.
Lemma p_mp_checked : explore_rec 2000 2000 p_mp (initial_path cfgT) 0 0 true = (72, 181, true, true).
Proof. vm_compute. reflexivity. Qed.

Print Assumptions exec_micro_trv.
Print Assumptions steps_traversed.
Print Assumptions fresh_load_is_candidate.
Print Assumptions traversed_ReplayOK.
Print Assumptions RunOK3_RunOK2.
Print Assumptions traversed_run_goodAt.
Print Assumptions first_iteration_goodAt.
Print Assumptions first_iteration_coherence.
Print Assumptions after_prefix_ReplayAt.
Print Assumptions recorded_ReplayAt.
Print Assumptions recorded_run_goodAt.
Print Assumptions steps_load_entry_fixed.
Print Assumptions step_load_entry.
Print Assumptions run_rec_sound.
Print Assumptions explore_rec_sound.
Print Assumptions explored_run_goodAt.
Print Assumptions p_sl_checked.
Print Assumptions p_mp_checked.
Print Assumptions check_records_Explored.
