(* AtomicRun4: a NON-VACUITY witness for the run theorems of AtomicRun /
   AtomicRun2 / AtomicRun3.

   1. A generic sound checker over a whole exploration: [explore_chk chk] runs
      every iteration (Check.run) and evaluates [chk] at every micro-operation
      it executes; [explore_chk_sound]: if it answers (true, true) then chk holds
      at every micro-operation of every state reachable (SyncMono.steps -- the
      executions are deterministic, so these are the states of the real run) in
      the iteration of every path of the exploration ([Explored]).
   2. [ring_chk a]: the ring of a has room at the accesses of a; hence
      [ring_checked_RunOK3].
   3. For the concrete program AtomicRun3.p_sl (two threads, each a relaxed store
      and a relaxed load of atomic 0): [p_sl_all_good], [p_sl_atomicity],
      [p_sl_coherence] have NO hypothesis left except "pa is a path of the
      exploration" and "e is reachable in its iteration".  [p_sl_RunOK2] /
      [p_sl_RunOK]: the hypotheses of run_goodAt2 / run_goodAt hold for every
      such path, i.e. those theorems are not vacuous.
   5. The same for AtomicRun3.p_mp, which contains an RMW on atomic 0:
      [p_mp_all_good], [p_mp_atomicity], [p_mp_coherence]; [e_mp_rmw_store] /
      [p_mp_atomicity_instance]: a reachable state with a live RMW store, at
      which the atomicity statement is instantiated.
   4. [side_instance]: one concrete reachable access (thread 1's load in the
      first iteration) at which SideOK holds, with the replay clause
      instantiated on a non-empty candidate list. *)
From Coq Require Import List Arith Lia Bool NArith.
Import ListNotations.
From LV Require Import Base VV VVFacts Path PathSpec PathApi Prog Objects Exec Atomic Ops Check
  CheckFacts SyncFacts ExecFacts SyncMono NotifyFacts ClockFacts AtomicFacts AtomicCoherence
  AtomicCoRR AtomicClosure AtomicBridge AtomicRun AtomicRun2 AtomicRun3.

(* ================================================================== *)
(* 1. A generic checker                                                 *)
(* ================================================================== *)
Section Chk.
  Variable chk : exec -> nat -> micro -> bool.

  Fixpoint run_chk (fuel : nat) (e : exec) (ok : bool) : exec * iter_end * bool :=
    match fuel with
    | 0 => (e, IterFuel, ok)
    | S fuel' =>
        match e_active e with
        | None => (e, IterDone, ok)
        | Some me =>
            match nth_error (e_threads e) me with
            | None => (e, IterPanic (PanicModel 30), ok)
            | Some t =>
                match t_cont t with
                | [] => (e, IterPanic (PanicModel 31), ok)
                | m :: rest =>
                    let e1 := upd_thread e me (fun t => th_set_cont t rest) in
                    match exec_micro e1 me m with
                    | MOk e2 => run_chk fuel' e2 (ok && chk e1 me m)
                    | MFail e2 p => (e2, IterPanic p, ok && chk e1 me m)
                    end
                end
            end
        end
    end.

  Lemma run_chk_run : forall fuel e ok e' r ok',
    run_chk fuel e ok = (e', r, ok') -> run fuel e = (e', r).
  Proof.
    induction fuel as [|fuel IH]; intros e ok e' r ok' H; cbn [run_chk run] in *.
    - injection H as <- <- _. reflexivity.
    - destruct (e_active e) as [me|]; [|injection H as <- <- _; reflexivity].
      destruct (nth_error (e_threads e) me) as [t|]; [|injection H as <- <- _; reflexivity].
      destruct (t_cont t) as [|m rest]; [injection H as <- <- _; reflexivity|].
      cbv zeta in H. destruct (exec_micro _ me m) as [e2|e2 p].
      + eapply IH. exact H.
      + injection H as <- <- _. reflexivity.
  Qed.

  Lemma run_chk_ok_in : forall fuel e ok e' r,
    run_chk fuel e ok = (e', r, true) -> ok = true.
  Proof.
    induction fuel as [|fuel IH]; intros e ok e' r H; cbn [run_chk] in H.
    - injection H as _ _ ->. reflexivity.
    - destruct (e_active e) as [me|]; [|injection H as _ _ ->; reflexivity].
      destruct (nth_error (e_threads e) me) as [t|]; [|injection H as _ _ ->; reflexivity].
      destruct (t_cont t) as [|m rest]; [injection H as _ _ ->; reflexivity|].
      cbv zeta in H. destruct (exec_micro _ me m) as [e2|e2 p].
      + apply IH in H. apply andb_true_iff in H. tauto.
      + injection H as _ _ H. apply andb_true_iff in H. tauto.
  Qed.

  Theorem run_chk_sound : forall fuel e ok e' r,
    run_chk fuel e ok = (e', r, true) -> r <> IterFuel ->
    forall e1 me t m rest,
      steps e e1 -> e_active e1 = Some me -> nth_error (e_threads e1) me = Some t ->
      t_cont t = m :: rest ->
      chk (upd_thread e1 me (fun t => th_set_cont t rest)) me m = true.
  Proof.
    induction fuel as [|fuel IH]; intros e ok e' r H Hr e1 me t m rest Hs Hact Ht Hc;
      cbn [run_chk] in H.
    - injection H as _ <- _. contradiction.
    - destruct Hs as [e|e me0 t0 m0 rest0 e2 e3 Hact0 Ht0 Hc0 Hx0 Hs0].
      + rewrite Hact, Ht, Hc in H. cbv zeta in H.
        destruct (exec_micro _ me m) as [e2|e2 p].
        * apply run_chk_ok_in in H. apply andb_true_iff in H. tauto.
        * injection H as _ _ H. apply andb_true_iff in H. tauto.
      + rewrite Hact0, Ht0, Hc0 in H. cbv zeta in H. rewrite Hx0 in H.
        exact (IH _ _ _ _ H Hr e3 me t m rest Hs0 Hact Ht Hc).
  Qed.

  (* (verdict, finished) *)
  Fixpoint explore_chk (ifuel fuel : nat) (p : prog) (pa : path) (ok : bool) : bool * bool :=
    match ifuel with
    | 0 => (ok, false)
    | S ifuel' =>
        match run_chk fuel (init_exec p pa) ok with
        | (e, IterDone, ok') =>
            match step (e_path e) with
            | Some pa' => explore_chk ifuel' fuel p pa' ok'
            | None => (ok', true)
            end
        | (_, _, ok') => (ok', false)
        end
    end.

  Lemma explore_chk_ok_in : forall ifuel fuel p pa ok fin,
    explore_chk ifuel fuel p pa ok = (true, fin) -> ok = true.
  Proof.
    induction ifuel as [|ifuel IH]; intros fuel p pa ok fin H; cbn [explore_chk] in H.
    - injection H as -> _. reflexivity.
    - destruct (run_chk fuel (init_exec p pa) ok) as [[e r] ok1] eqn:Hr.
      assert (Hk : ok1 = true -> ok = true).
      { intros ->. exact (run_chk_ok_in _ _ _ _ _ Hr). }
      destruct r; try (injection H as -> _; auto).
      destruct (step (e_path e)) as [pa'|]; [|injection H as -> _; auto].
      apply Hk. exact (IH _ _ _ _ _ H).
  Qed.

  Theorem explore_chk_sound : forall ifuel fuel p pa0,
    explore_chk ifuel fuel p pa0 true = (true, true) ->
    forall pa, Explored fuel p pa0 pa ->
    forall e me t m rest,
      steps (init_exec p pa) e -> e_active e = Some me -> nth_error (e_threads e) me = Some t ->
      t_cont t = m :: rest ->
      chk (upd_thread e me (fun t => th_set_cont t rest)) me m = true.
  Proof.
    intros ifuel fuel p pa0 H pa Hex.
    assert (Hmain : exists k, explore_chk (S k) fuel p pa true = (true, true)).
    { induction Hex as [|pa e pa' Hex IH Hrun Hstep].
      - destruct ifuel as [|k]; [cbn in H; discriminate|]. exists k. exact H.
      - destruct IH as (k & He). cbn [explore_chk] in He.
        destruct (run_chk fuel (init_exec p pa) true) as [[e1 r1] ok2] eqn:Hr.
        pose proof (run_chk_run _ _ _ _ _ _ Hr) as Hrr. rewrite Hrun in Hrr.
        injection Hrr as <- <-. rewrite Hstep in He.
        pose proof (explore_chk_ok_in _ _ _ _ _ _ He) as ->.
        destruct k as [|k]; [cbn in He; discriminate|].
        exists k. exact He. }
    destruct Hmain as (k & He). cbn [explore_chk] in He.
    destruct (run_chk fuel (init_exec p pa) true) as [[e1 r1] ok2] eqn:Hr.
    assert (Hok2 : ok2 = true /\ r1 = IterDone).
    { destruct r1; try discriminate He.
      destruct (step (e_path e1)); [|injection He as ->; auto].
      split; [exact (explore_chk_ok_in _ _ _ _ _ _ He)|reflexivity]. }
    destruct Hok2 as [-> ->].
    intros e me t m rest Hs Hact Ht Hc.
    refine (run_chk_sound fuel (init_exec p pa) true e1 IterDone Hr _ e me t m rest Hs Hact Ht Hc).
    discriminate.
  Qed.
End Chk.

(* ================================================================== *)
(* 2. Ring room                                                         *)
(* ================================================================== *)
Definition acc_all_idx (m : micro) : option nat :=
  match m with
  | MLoadPost b _ _ | MFuLoadPost b _ _ _ _ | MStorePost b _ _ | MRmwPost b _ _ _
  | MUnsyncLoad b | MWithMut b _ | MBoLoad b _ _ _ _ _ | MBsLoad b _ _ _ _ _ _ => Some b
  | _ => None
  end.

Lemma acc_on_idx : forall a m, acc_on a m -> acc_all_idx m = Some a.
Proof. intros a m H. destruct m; cbn [acc_on] in H; try contradiction; subst; reflexivity. Qed.

Definition ring_chk (a : nat) (e1 : exec) (me : nat) (m : micro) : bool :=
  match acc_all_idx m with
  | Some b =>
      if Nat.eqb b a then
        match get_atomic e1 a with
        | Some s => Nat.ltb (at_cnt s) MAX_ATOMIC_HISTORY
        | None => true
        end
      else true
  | None => true
  end.

Theorem ring_checked_RunOK3 : forall a ifuel fuel p pa0 pa,
  explore_chk (ring_chk a) ifuel fuel p pa0 true = (true, true) ->
  Explored fuel p pa0 pa -> RunOK3 p pa a.
Proof.
  intros a ifuel fuel p pa0 pa H Hex e me t m rest s Hs Hact Ht Hc Ha Hg.
  pose proof (explore_chk_sound (ring_chk a) ifuel fuel p pa0 H pa Hex e me t m rest Hs Hact Ht Hc) as Hk.
  unfold ring_chk in Hk. rewrite (acc_on_idx a m Ha), Nat.eqb_refl in Hk.
  destruct (pop_cont_frame e me rest) as [_ Hg0]. rewrite Hg0, Hg in Hk.
  apply Nat.ltb_lt. exact Hk.
Qed.

(* ================================================================== *)
(* 3. p_sl: nothing left to assume                                      *)
(* ================================================================== *)
Lemma p_sl_ring_checked :
  explore_chk (ring_chk 0) 2000 2000 p_sl (initial_path cfgT) true = (true, true).
Proof. vm_compute. reflexivity. Qed.

Lemma p_sl_max_threads : max_threads (p_cfg p_sl) <= MAX_THREADS.
Proof. vm_compute. lia. Qed.

Lemma p_sl_atomic0 : forall pa, exists s0, get_atomic (init_exec p_sl pa) 0 = Some s0.
Proof. intros pa. eexists. reflexivity. Qed.

Theorem p_sl_RunOK2 : forall pa,
  Explored 2000 p_sl (initial_path cfgT) pa -> RunOK2 p_sl pa 0.
Proof.
  intros pa Hex. apply RunOK3_RunOK2.
  - apply RecordedOK_ReplayOK.
    exact (proj1 (explore_rec_sound 0 2000 2000 p_sl _ 0 0 25 28 p_sl_checked pa Hex)).
  - exact (ring_checked_RunOK3 0 2000 2000 p_sl _ pa p_sl_ring_checked Hex).
Qed.

Theorem p_sl_RunOK : forall pa,
  Explored 2000 p_sl (initial_path cfgT) pa -> RunOK p_sl pa 0.
Proof. intros pa Hex. exact (RunOK2_RunOK p_sl pa 0 p_sl_max_threads (p_sl_RunOK2 pa Hex)). Qed.

(* every state of every iteration of the exploration of p_sl *)
Theorem p_sl_all_good : forall pa e,
  Explored 2000 p_sl (initial_path cfgT) pa -> steps (init_exec p_sl pa) e -> GoodAt 0 e.
Proof.
  intros pa e Hex Hs. destruct (p_sl_atomic0 pa) as [s0 Hs0].
  exact (run_goodAt2 p_sl pa 0 s0 e p_sl_max_threads Hs0 (p_sl_RunOK2 pa Hex) Hs).
Qed.

Theorem p_sl_atomicity : forall pa e s r sl sid,
  Explored 2000 p_sl (initial_path cfgT) pa -> steps (init_exec p_sl pa) e ->
  get_atomic e 0 = Some s -> r < at_cnt s -> st_rmw_src (get_store s r) = Some (sl, sid) ->
  sl < at_cnt s /\ vv_lt (mo s sl) (mo s r) = true /\
  forall x, x < at_cnt s -> vv_lt (mo s sl) (mo s x) && vv_lt (mo s x) (mo s r) = false.
Proof.
  intros pa e s r sl sid Hex Hs. destruct (p_sl_atomic0 pa) as [s0 Hs0].
  exact (run_atomicity2 p_sl pa 0 s0 e s r sl sid p_sl_max_threads Hs0 (p_sl_RunOK2 pa Hex) Hs).
Qed.

Theorem p_sl_coherence : forall pa e e' s t i j,
  Explored 2000 p_sl (initial_path cfgT) pa ->
  steps (init_exec p_sl pa) e -> steps e e' ->
  get_atomic e 0 = Some s -> t < MAX_THREADS -> i < at_cnt s -> j < at_cnt s ->
  vv_lt (mo s i) (mo s j) = true ->
  is_seen_by_current (st_seen (get_store s j)) (caus_of e t) = true ->
  exists s', get_atomic e' 0 = Some s' /\
    (forall ly o l, match_load_to_stores s' t (vv_inc (caus_of e' t) t) ly o = Some l -> ~ In i l) /\
    (forall l, match_rmw_to_stores s' = Some l -> ~ In i l).
Proof.
  intros pa e e' s t i j Hex. destruct (p_sl_atomic0 pa) as [s0 Hs0].
  exact (CoRR_CoWR_steps2 p_sl pa 0 s0 e e' s t i j p_sl_max_threads Hs0 (p_sl_RunOK2 pa Hex)).
Qed.

(* the same for the begin path of every record of Builder::check *)
Theorem p_sl_check_all_good : forall ifuel recs fin ck r e,
  check ifuel 2000 p_sl = (recs, fin, ck) -> In r recs ->
  steps (init_exec p_sl (ir_begin r)) e -> GoodAt 0 e.
Proof.
  intros ifuel recs fin ck r e H Hin. apply p_sl_all_good.
  exact (check_records_Explored ifuel 2000 p_sl recs fin ck r H Hin).
Qed.

(* ================================================================== *)
(* 4. One concrete access                                               *)
(* ================================================================== *)
(* the state of the first iteration of p_sl after 17 micro-operations: thread 1
   is about to load atomic 0 (main has stored 1, thread 1 has stored 2) *)
Definition e17 : exec := fst (run 17 (init_exec p_sl (initial_path cfgT))).

Lemma e17_reachable : steps (init_exec p_sl (initial_path cfgT)) e17.
Proof.
  unfold e17.
  assert (H : snd (run 17 (init_exec p_sl (initial_path cfgT))) = IterFuel) by (vm_compute; reflexivity).
  destruct (run 17 (init_exec p_sl (initial_path cfgT))) as [e r] eqn:Hr. cbn [fst snd] in *. subst r.
  apply (run_steps 17 _ e IterFuel Hr). right. reflexivity.
Qed.

Definition t17 : thread :=
  match nth_error (e_threads e17) 1 with Some t => t | None => thread_new 0 [] end.
Definition rest17 : list micro := tl (t_cont t17).
Definition e17p : exec := upd_thread e17 1 (fun t => th_set_cont t rest17).

Lemma e17_active : e_active e17 = Some 1.
Proof. vm_compute. reflexivity. Qed.
Lemma e17_thread : nth_error (e_threads e17) 1 = Some t17.
Proof. vm_compute. reflexivity. Qed.
Lemma e17_cont : t_cont t17 = MLoadPost 0 Relaxed None :: rest17.
Proof. vm_compute. reflexivity. Qed.

Lemma e17_SideOK : SideOK 0 e17p 1 (MLoadPost 0 Relaxed None).
Proof.
  exact (p_sl_RunOK (initial_path cfgT) (Explored_first 2000 p_sl (initial_path cfgT))
           e17 1 t17 (MLoadPost 0 Relaxed None) rest17
           e17_reachable e17_active e17_thread e17_cont (eq_refl 0)).
Qed.

Lemma e17_concrete :
  exists s t0 l e2 idx,
    get_atomic e17p 0 = Some s /\ get_thread e17p 1 = Some t0 /\
    micro_seed s 1 t0 (MLoadPost 0 Relaxed None) = Some (Some l) /\
    2 <= length l /\
    choose_store (causality_inc e17p 1) (Some l) = (e2, inl idx) /\ In idx l /\
    at_cnt s = 3 /\ at_cnt s < MAX_ATOMIC_HISTORY.
Proof.
  do 5 eexists.
  split; [vm_compute; reflexivity|]. split; [vm_compute; reflexivity|].
  split; [vm_compute; reflexivity|]. split; [vm_compute; lia|].
  split; [vm_compute; reflexivity|]. split; [vm_compute; auto|].
  split; [vm_compute; reflexivity|vm_compute; lia].
Qed.

(* a reachable access at which SideOK holds and its clauses are not vacuous *)
Example side_instance :
  steps (init_exec p_sl (initial_path cfgT)) e17 /\
  e_active e17 = Some 1 /\ nth_error (e_threads e17) 1 = Some t17 /\
  t_cont t17 = MLoadPost 0 Relaxed None :: rest17 /\
  SideOK 0 e17p 1 (MLoadPost 0 Relaxed None) /\
  exists s t0 l e2 idx,
    get_atomic e17p 0 = Some s /\ get_thread e17p 1 = Some t0 /\
    micro_seed s 1 t0 (MLoadPost 0 Relaxed None) = Some (Some l) /\
    2 <= length l /\
    choose_store (causality_inc e17p 1) (Some l) = (e2, inl idx) /\ In idx l /\
    at_cnt s = 3 /\ at_cnt s < MAX_ATOMIC_HISTORY.
Proof.
  exact (conj e17_reachable (conj e17_active (conj e17_thread (conj e17_cont
           (conj e17_SideOK e17_concrete))))).
Qed.

(* ================================================================== *)
(* 5. p_mp: the same with an RMW                                        *)
(* ================================================================== *)
(* AtomicRun3.p_mp: main stores 1 to atomic 0 (relaxed), thread 1 does
   fetch_add(10, AcqRel) on atomic 0; both also load it.  Atomic 0 is the one
   the RMW acts on. *)
Lemma p_mp_ring_checked :
  explore_chk (ring_chk 0) 2000 2000 p_mp (initial_path cfgT) true = (true, true).
Proof. vm_compute. reflexivity. Qed.

Lemma p_mp_max_threads : max_threads (p_cfg p_mp) <= MAX_THREADS.
Proof. vm_compute. lia. Qed.

Lemma p_mp_atomic0 : forall pa, exists s0, get_atomic (init_exec p_mp pa) 0 = Some s0.
Proof. intros pa. eexists. reflexivity. Qed.

Theorem p_mp_RunOK2 : forall pa,
  Explored 2000 p_mp (initial_path cfgT) pa -> RunOK2 p_mp pa 0.
Proof.
  intros pa Hex. apply RunOK3_RunOK2.
  - apply RecordedOK_ReplayOK.
    exact (proj1 (explore_rec_sound 0 2000 2000 p_mp _ 0 0 72 181 p_mp_checked pa Hex)).
  - exact (ring_checked_RunOK3 0 2000 2000 p_mp _ pa p_mp_ring_checked Hex).
Qed.

Theorem p_mp_RunOK : forall pa,
  Explored 2000 p_mp (initial_path cfgT) pa -> RunOK p_mp pa 0.
Proof. intros pa Hex. exact (RunOK2_RunOK p_mp pa 0 p_mp_max_threads (p_mp_RunOK2 pa Hex)). Qed.

Theorem p_mp_all_good : forall pa e,
  Explored 2000 p_mp (initial_path cfgT) pa -> steps (init_exec p_mp pa) e -> GoodAt 0 e.
Proof.
  intros pa e Hex Hs. destruct (p_mp_atomic0 pa) as [s0 Hs0].
  exact (run_goodAt2 p_mp pa 0 s0 e p_mp_max_threads Hs0 (p_mp_RunOK2 pa Hex) Hs).
Qed.

Theorem p_mp_atomicity : forall pa e s r sl sid,
  Explored 2000 p_mp (initial_path cfgT) pa -> steps (init_exec p_mp pa) e ->
  get_atomic e 0 = Some s -> r < at_cnt s -> st_rmw_src (get_store s r) = Some (sl, sid) ->
  sl < at_cnt s /\ vv_lt (mo s sl) (mo s r) = true /\
  forall x, x < at_cnt s -> vv_lt (mo s sl) (mo s x) && vv_lt (mo s x) (mo s r) = false.
Proof.
  intros pa e s r sl sid Hex Hs. destruct (p_mp_atomic0 pa) as [s0 Hs0].
  exact (run_atomicity2 p_mp pa 0 s0 e s r sl sid p_mp_max_threads Hs0 (p_mp_RunOK2 pa Hex) Hs).
Qed.

Theorem p_mp_coherence : forall pa e e' s t i j,
  Explored 2000 p_mp (initial_path cfgT) pa ->
  steps (init_exec p_mp pa) e -> steps e e' ->
  get_atomic e 0 = Some s -> t < MAX_THREADS -> i < at_cnt s -> j < at_cnt s ->
  vv_lt (mo s i) (mo s j) = true ->
  is_seen_by_current (st_seen (get_store s j)) (caus_of e t) = true ->
  exists s', get_atomic e' 0 = Some s' /\
    (forall ly o l, match_load_to_stores s' t (vv_inc (caus_of e' t) t) ly o = Some l -> ~ In i l) /\
    (forall l, match_rmw_to_stores s' = Some l -> ~ In i l).
Proof.
  intros pa e e' s t i j Hex. destruct (p_mp_atomic0 pa) as [s0 Hs0].
  exact (CoRR_CoWR_steps2 p_mp pa 0 s0 e e' s t i j p_mp_max_threads Hs0 (p_mp_RunOK2 pa Hex)).
Qed.

(* the end state of the first iteration holds a live RMW store: slot 2 of atomic 0
   is the store half of the fetch_add, its source is slot 1 *)
Definition e_mp : exec := fst (run 2000 (init_exec p_mp (initial_path cfgT))).

Lemma e_mp_reachable : steps (init_exec p_mp (initial_path cfgT)) e_mp.
Proof.
  unfold e_mp.
  assert (H : snd (run 2000 (init_exec p_mp (initial_path cfgT))) = IterDone) by (vm_compute; reflexivity).
  destruct (run 2000 (init_exec p_mp (initial_path cfgT))) as [e r] eqn:Hr. cbn [fst snd] in *. subst r.
  apply (run_steps 2000 _ e IterDone Hr). left. reflexivity.
Qed.

Lemma e_mp_rmw_store :
  exists s sid, get_atomic e_mp 0 = Some s /\ at_cnt s = 3 /\
                st_rmw_src (get_store s 2) = Some (1, sid).
Proof. do 2 eexists. split; [vm_compute; reflexivity|]. split; vm_compute; reflexivity. Qed.

(* so p_mp_atomicity has an instance: in a reachable state, a live RMW store
   sits directly after its source in the modification order *)
Example p_mp_atomicity_instance :
  exists s sid,
    steps (init_exec p_mp (initial_path cfgT)) e_mp /\
    get_atomic e_mp 0 = Some s /\ 2 < at_cnt s /\ st_rmw_src (get_store s 2) = Some (1, sid) /\
    1 < at_cnt s /\ vv_lt (mo s 1) (mo s 2) = true /\
    forall x, x < at_cnt s -> vv_lt (mo s 1) (mo s x) && vv_lt (mo s x) (mo s 2) = false.
Proof.
  destruct e_mp_rmw_store as (s & sid & Hs & Hc & Hsrc). exists s, sid.
  assert (H2 : 2 < at_cnt s) by lia.
  destruct (p_mp_atomicity _ e_mp s 2 1 sid (Explored_first 2000 p_mp _) e_mp_reachable Hs H2 Hsrc)
    as (A & B & C).
  auto 10 using e_mp_reachable.
Qed.

Print Assumptions explore_chk_sound.
Print Assumptions ring_checked_RunOK3.
Print Assumptions p_sl_ring_checked.
Print Assumptions p_sl_RunOK2.
Print Assumptions p_sl_RunOK.
Print Assumptions p_sl_all_good.
Print Assumptions p_sl_atomicity.
Print Assumptions p_sl_coherence.
Print Assumptions p_sl_check_all_good.
Print Assumptions side_instance.
Print Assumptions p_mp_ring_checked.
Print Assumptions p_mp_RunOK2.
Print Assumptions p_mp_RunOK.
Print Assumptions p_mp_all_good.
Print Assumptions p_mp_atomicity.
Print Assumptions p_mp_coherence.
Print Assumptions e_mp_rmw_store.
Print Assumptions p_mp_atomicity_instance.
